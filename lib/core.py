"""Orchestration shared by all checks: regenerate (G-tie), prove (lake + audit), correspond
(D-tie: Go harness `hv` vs Lean driver `hopmodel`), decide, write evidence.

Python standard library only.
"""
import fcntl
import hashlib
import json
import os
import re
import shutil
import subprocess
import sys
import time
from concurrent.futures import ThreadPoolExecutor

VERIF = os.path.dirname(os.path.dirname(os.path.abspath(__file__)))
REPO = os.environ.get("HOP_REPO", "/repo")
LEAN = os.path.join(VERIF, "lean", "HopModel")
HARNESS = os.path.join(VERIF, "harness")
BUILD = os.path.join(VERIF, ".build")
WORK = os.path.join(VERIF, ".work")
EVID = os.path.join(VERIF, "evidence")
REPLAY = os.path.join(EVID, "replay")
GENERATED = os.path.join(LEAN, "HopModel", "Generated")
def hv_path(prop, tags=""):
    return os.path.join(BUILD, "hv-" + prop + ("+" + tags if tags else ""))
HOPMODEL = os.path.join(LEAN, ".lake", "build", "bin", "hopmodel")
KNOWN = os.path.join(VERIF, "KNOWN_FINDINGS.jsonl")

ALLOWED_AXIOMS = {"propext", "Classical.choice", "Quot.sound"}
FORBIDDEN = [r"\bsorry\b", r"\badmit\b", r"^\s*axiom\s", r"\bnative_decide\b", r"\bbv_decide\b",
             r"\bimplemented_by\b", r"\bunsafe\s", r"maxHeartbeats\s+0\b"]

TRUSTED_BASE = [
    "Lean 4.33.0 kernel (and leanchecker in the thorough tier)",
    "axioms: subset of {propext, Classical.choice, Quot.sound} as printed by #print axioms; no own axioms, no sorry, no native_decide, no bv_decide",
    "Lean compiler/runtime for the hopmodel driver (the D-tie executes compiled model code)",
    "translator harness/extract (go/ast+go/types) and this driver's diff/shrink logic",
    "Go toolchain; hand-written models are tied to the code only by the checked correspondence (differential runs) and the generated constants",
]


def goenv():
    e = dict(os.environ)
    e["GOFLAGS"] = "-mod=mod"
    e["GOPROXY"] = "off"
    e.pop("GOTOOLCHAIN", None)   # GOTOOLCHAIN=local breaks the go1.24 switch
    e.pop("GOSUMDB", None)
    e.setdefault("GOCACHE", os.path.join(os.path.expanduser("~"), ".cache", "go-build"))
    return e


def sh(cmd, cwd=None, env=None, timeout=None, inp=None):
    p = subprocess.run(cmd, cwd=cwd, env=env, timeout=timeout, input=inp,
                       stdout=subprocess.PIPE, stderr=subprocess.STDOUT, text=True)
    return p.returncode, p.stdout


class Lock:
    def __enter__(self):
        os.makedirs(BUILD, exist_ok=True)
        self.f = open(os.path.join(BUILD, "lock"), "w")
        fcntl.flock(self.f, fcntl.LOCK_EX)
        return self

    def __exit__(self, *a):
        fcntl.flock(self.f, fcntl.LOCK_UN)
        self.f.close()


# ---------------------------------------------------------------- G-tie: regenerate

def sync_harness_gosum():
    src = os.path.join(REPO, "go.sum")
    dst = os.path.join(HARNESS, "go.sum")
    try:
        if open(src, "rb").read() != open(dst, "rb").read():
            shutil.copyfile(src, dst)
    except FileNotFoundError:
        shutil.copyfile(src, dst)


def modfile_args():
    """harness/go.mod points at /repo; when HOP_REPO names another tree (development worktrees
    only) an alternative go.mod is written under .build and selected with -modfile"""
    if os.path.realpath(REPO) == "/repo":
        return []
    os.makedirs(BUILD, exist_ok=True)
    alt = os.path.join(BUILD, "go.alt.mod")
    src = open(os.path.join(HARNESS, "go.mod")).read().replace("=> /repo", "=> " + os.path.realpath(REPO))
    if not os.path.exists(alt) or open(alt).read() != src:
        open(alt, "w").write(src)
    shutil.copyfile(os.path.join(REPO, "go.sum"), os.path.join(BUILD, "go.alt.sum"))
    return ["-modfile=" + alt]


def regenerate():
    """Run the translator on /repo's working tree; replace Generated/* only where content
    changed (so lake re-elaborates only what depends on changed facts)."""
    tmp = os.path.join(BUILD, "gen.tmp")
    shutil.rmtree(tmp, ignore_errors=True)
    os.makedirs(tmp)
    rc, out = sh(["go", "run"] + modfile_args() + ["./extract", "-repo", REPO, "-out", tmp,
                  "-facts", os.path.join(BUILD, "facts.json")], cwd=HARNESS, env=goenv())
    if rc != 0:
        return False, out
    os.makedirs(GENERATED, exist_ok=True)
    new = set(os.listdir(tmp))
    for f in os.listdir(GENERATED):
        if f not in new:
            os.remove(os.path.join(GENERATED, f))
    for f in new:
        a, b = os.path.join(tmp, f), os.path.join(GENERATED, f)
        if not os.path.exists(b) or open(a, "rb").read() != open(b, "rb").read():
            shutil.copyfile(a, b)
    shutil.rmtree(tmp, ignore_errors=True)
    return True, out


# ---------------------------------------------------------------- proofs

def strip_comments(src):
    # block comments (nested) and line comments
    out, i, depth = [], 0, 0
    while i < len(src):
        if src.startswith("/-", i):
            depth += 1
            i += 2
        elif depth and src.startswith("-/", i):
            depth -= 1
            i += 2
        elif depth:
            if src[i] == "\n":
                out.append("\n")
            i += 1
        elif src.startswith("--", i):
            while i < len(src) and src[i] != "\n":
                i += 1
        else:
            out.append(src[i])
            i += 1
    return "".join(out)


def lean_sources():
    res = []
    for root, _, files in os.walk(os.path.join(LEAN, "HopModel")):
        for f in files:
            if f.endswith(".lean"):
                res.append(os.path.join(root, f))
    res.append(os.path.join(LEAN, "Main.lean"))
    return sorted(res)


def grep_forbidden():
    hits = []
    for p in lean_sources():
        src = strip_comments(open(p).read())
        for n, line in enumerate(src.split("\n"), 1):
            for pat in FORBIDDEN:
                if re.search(pat, line):
                    hits.append("%s:%d: %s" % (os.path.relpath(p, VERIF), n, line.strip()))
    return hits


def module_path(mod):
    return os.path.join(LEAN, *mod.split(".")) + ".lean"


def theorems_of(mod, prefix):
    """(namespace-qualified theorem names, number of examples) of a Props module"""
    src = strip_comments(open(module_path(mod)).read())
    ns, names, examples = [], [], 0
    for line in src.split("\n"):
        m = re.match(r"\s*namespace\s+(\S+)", line)
        if m:
            ns.append(m.group(1))
            continue
        m = re.match(r"\s*end\s+(\S+)", line)
        if m and ns and ns[-1] == m.group(1):
            ns.pop()
            continue
        m = re.match(r"\s*(?:private\s+|protected\s+)?theorem\s+(\S+)", line)
        if m and m.group(1).startswith(prefix):
            names.append(".".join(ns + [m.group(1)]))
        if re.match(r"\s*example\b", line):
            examples += 1
    return names, examples


def lake_build(targets):
    rc, out = sh(["lake", "build"] + targets, cwd=LEAN, timeout=3600)
    return rc == 0, out


def audit(mod, names):
    """#print axioms for every property theorem; returns {name: [axioms]} and raw output"""
    os.makedirs(BUILD, exist_ok=True)
    f = os.path.join(BUILD, "Audit_%s_%d.lean" % (mod.replace(".", "_"), os.getpid()))
    with open(f, "w") as h:
        h.write("import %s\n" % mod)
        for n in names:
            h.write("#print axioms %s\n" % n)
    rc, out = sh(["lake", "env", "lean", f], cwd=LEAN, timeout=1800)
    os.remove(f)
    res = {}
    flat = re.sub(r"\s+", " ", out)
    for n in names:
        m = re.search(r"'%s' depends on axioms: \[([^\]]*)\]" % re.escape(n), flat)
        if m:
            res[n] = [a.strip() for a in m.group(1).split(",") if a.strip()]
        elif re.search(r"'%s' does not depend on any axioms" % re.escape(n), flat):
            res[n] = []
        else:
            res[n] = None
    return res, out


def prove(prop_id, mod, tier):
    """Returns dict(ok, obligations, discharged, failed=[...], log, axioms)"""
    names, examples = theorems_of(mod, prop_id + "_")
    # the driver first and on its own: when it does not build (a model or driver file is broken, or a
    # generated file it imports changed shape) the stale binary must not answer for the model
    dok, dout = lake_build(["hopmodel"])
    if not dok:
        try:
            os.remove(HOPMODEL)
        except FileNotFoundError:
            pass
    ok, out = lake_build([mod])
    if not dok:
        ok, out = False, dout + "\n" + out
    res = {"module": mod, "theorems": names, "examples": examples, "obligations": len(names) + examples,
           "discharged": 0, "failed": [], "log": "", "axioms": {}}
    if not ok:
        errs = [l for l in out.split("\n") if "error" in l]
        res["failed"] = errs[:20] or ["lake build failed"]
        res["log"] = out[-6000:]
        # which theorems still check is not known when the module does not build
        res["ok"] = False
        return res
    hits = grep_forbidden()
    if hits:
        res["failed"] = ["forbidden construct: " + h for h in hits]
        res["ok"] = False
        return res
    ax, raw = audit(mod, names)
    res["axioms"] = ax
    bad = [n for n, a in ax.items() if a is None or not set(a) <= ALLOWED_AXIOMS]
    if bad:
        res["failed"] = ["axiom audit failed for %s: %s" % (n, ax[n]) for n in bad]
        res["log"] = raw[-3000:]
    res["discharged"] = len(names) - len(bad) + examples
    if tier == "thorough" and not bad:
        rc, o = sh(["lake", "env", "leanchecker", mod], cwd=LEAN, timeout=3600)
        res["leanchecker"] = "ok" if rc == 0 else o[-2000:]
        if rc != 0:
            res["failed"].append("leanchecker rejected " + mod)
    res["ok"] = not res["failed"]
    return res


# ---------------------------------------------------------------- D-tie

def build_hv(prop, tags=""):
    """build the property's own harness binary from /repo's current working tree (always with
    the `verif` tag, plus the suite's extra tags)"""
    sync_harness_gosum()
    os.makedirs(BUILD, exist_ok=True)
    alltags = "verif" + ("," + tags if tags else "")
    # the pseudo-tag "race" builds the harness with the Go race detector (needs cgo)
    race = ["-race"] if "race" in tags.split(",") else []
    rc, out = sh(["go", "build"] + race + modfile_args() + ["-tags", alltags, "-o", hv_path(prop, tags), "./cmd/" + prop.lower()],
                 cwd=HARNESS, env=goenv(), timeout=1800)
    return rc == 0, out


def run_lines(cmd, lines, timeout=600, env=None):
    p = subprocess.run(cmd, input="".join(l + "\n" for l in lines), stdout=subprocess.PIPE,
                       stderr=subprocess.PIPE, text=True, timeout=timeout, env=env)
    out = p.stdout.split("\n")
    if out and out[-1] == "":
        out.pop()
    return p.returncode, out, p.stderr


def split_cases(ops):
    """indices where cases start (a line whose first word is 'new')"""
    starts = [i for i, l in enumerate(ops) if l.split(" ", 1)[0] == "new"]
    if not starts or starts[0] != 0:
        starts = [0] + starts
    return starts


class Tie:
    """One differential run of a suite."""

    def __init__(self, prop, suite, tier, seed, workdir, part=0, parts=1, tags="", suite_arg=None):
        self.prop, self.suite, self.tier, self.seed = prop, suite, tier, seed
        self.dir, self.part, self.parts = workdir, part, parts
        self.tags, self.arg = tags, suite_arg or suite

    def impl_cmd(self):
        return [hv_path(self.prop, self.tags), self.arg, "run"]

    def model_cmd(self, spec=False):
        return [HOPMODEL, self.arg] + (["--spec"] if spec else [])

    def path(self, name):
        return os.path.join(self.dir, "%s.%d.%s" % (self.suite, self.part, name))

    def generate(self):
        with open(self.path("ops"), "w") as f:
            p = subprocess.run([hv_path(self.prop, self.tags), self.arg, "gen", "-seed", str(self.seed), "-tier", self.tier,
                                "-part", str(self.part), "-parts", str(self.parts)],
                               stdout=f, stderr=subprocess.PIPE, text=True, env=goenv())
        return p.returncode == 0, p.stderr

    def execute(self, timeout, env=None, stateless=False):
        """run implementation and model over the ops file.  A harness process that dies (a panic in
        a goroutine of the code under test cannot be recovered) is restarted at the next case: the
        line it died on gets the output `<crash>`, the rest of that case `<skipped>`."""
        errs = []
        e = goenv()
        e.update(env or {})
        ops = open(self.path("ops")).read().split("\n")
        if ops and ops[-1] == "":
            ops.pop()
        starts = split_cases(ops)
        outs = []
        pos, crashes = 0, 0
        t_end = time.time() + timeout
        while pos < len(ops):
            try:
                p = subprocess.run(self.impl_cmd(), input="".join(l + "\n" for l in ops[pos:]),
                                   stdout=subprocess.PIPE, stderr=subprocess.PIPE, text=True,
                                   timeout=max(1, t_end - time.time()), env=e)
            except subprocess.TimeoutExpired:
                errs.append("impl timed out after %ds" % timeout)
                break
            got = p.stdout.split("\n")
            if got and got[-1] == "":
                got.pop()
            outs += got
            pos += len(got)
            if pos >= len(ops):
                break
            # died before answering line `pos`
            crashes += 1
            outs.append("<crash>")
            pos += 1
            # (in a stateless suite every line is its own case)
            nxt = pos if stateless else next((s for s in starts if s >= pos), len(ops))
            outs += ["<skipped>"] * (nxt - pos)
            pos = nxt
            if crashes == 1:
                self.crash_stderr = p.stderr[-3000:]
            if crashes > 200:
                errs.append("impl crashed more than 200 times; giving up")
                break
        with open(self.path("impl"), "w") as o:
            o.write("".join(l + "\n" for l in outs))
        with open(self.path("ops")) as i, open(self.path("model"), "w") as o:
            try:
                p = subprocess.run(self.model_cmd(), stdin=i, stdout=o, stderr=subprocess.PIPE, text=True,
                                   timeout=timeout)
                if p.returncode != 0:
                    errs.append("model exited %d: %s" % (p.returncode, p.stderr[-2000:]))
            except subprocess.TimeoutExpired:
                errs.append("model timed out after %ds" % timeout)
        return errs


def ddmin_case(case_ops, fails, stop=None):
    """remove operations (never the first line) while `fails` still holds; `stop()` ends the search early
    (what has been removed so far stays removed)"""
    ops = list(case_ops)
    n = 2
    budget = 400
    stop = stop or (lambda: False)
    while len(ops) > 2 and budget > 0 and not stop():
        chunk = max(1, (len(ops) - 1) // n)
        removed = False
        i = 1
        while i < len(ops) and budget > 0 and not stop():
            cand = ops[:i] + ops[i + chunk:]
            budget -= 1
            if len(cand) >= 1 and fails(cand):
                ops = cand
                removed = True
            else:
                i += chunk
        if not removed:
            if chunk == 1:
                break
            n = min(n * 2, len(ops) - 1)
    return ops


def first_diff(a, b):
    for i in range(max(len(a), len(b))):
        x = a[i] if i < len(a) else "<missing>"
        y = b[i] if i < len(b) else "<missing>"
        if x != y:
            return i
    return None


def load_known():
    """KNOWN_FINDINGS.jsonl (committed, never written at run time)"""
    res = []
    if os.path.exists(KNOWN):
        for l in open(KNOWN):
            l = l.strip()
            if l and not l.startswith("#"):
                res.append(json.loads(l))
    return res


def sig_matches(entry_sig, sig):
    return all(sig.get(k) == v for k, v in entry_sig.items())


def write_replay(prop, kind, payload):
    os.makedirs(REPLAY, exist_ok=True)
    h = hashlib.sha256(json.dumps(payload, sort_keys=True).encode()).hexdigest()[:12]
    p = os.path.join(REPLAY, "%s-%s-%s.json" % (prop, kind, h))
    with open(p, "w") as f:
        json.dump(payload, f, indent=1)
    return os.path.relpath(p, VERIF)


def write_evidence(prop, ev):
    os.makedirs(EVID, exist_ok=True)
    p = os.path.join(EVID, prop + ".json")
    tmp = p + ".tmp%d" % os.getpid()
    with open(tmp, "w") as f:
        json.dump(ev, f, indent=1)
    os.replace(tmp, p)
