#!/bin/sh
# Builds the framework offline from files on disk: the translator output, the Lean library
# (models, proofs) with the native driver, and the Go harness binaries.
cd "$(dirname "$0")" && mkdir -p .build evidence && exec ./check setup
