#!/bin/sh
# Builds the framework offline from files on disk: the translator output, the Lean library
# (models, proofs) with the native driver, and the Go harness binaries.
set -e
cd "$(dirname "$0")"
export GOFLAGS=-mod=mod GOPROXY=off
unset GOTOOLCHAIN GOSUMDB || true
mkdir -p .build evidence
cp /repo/go.sum harness/go.sum
(cd harness && go run ./extract -repo /repo -out ../lean/HopModel/HopModel/Generated -facts ../.build/facts.json)
(cd lean/HopModel && lake build)
for d in harness/cmd/*/; do
  n=$(basename "$d")
  N=$(echo "$n" | tr 'c' 'C')
  (cd harness && go build -tags verif -o ../.build/hv-$N ./cmd/$n) || echo "setup: harness $n does not build (its check will report it)"
done
echo setup done
