package main

import (
	"fmt"
	"go/ast"
	"go/constant"
	"go/token"
	"go/types"
	"os"
	"path/filepath"
	"sort"
	"strings"
)

// handshake functions whose operation programs are regenerated on every run
var hsFuncs = []string{
	"writePQClientHello", "readPQClientHello", "writePQServerHello", "readPQServerHello",
	"writePQClientAck", "readPQClientAck", "writePQServerAuth", "readPQServerAuth",
	"writePQClientAuth", "readPQClientAuth", "ReplayPQDuplexFromCookie",
	"writePQClientRequestHidden", "readPQClientRequestHidden",
	"writePQServerResponseHidden", "readPQServerResponseHidden",
	"deriveFinalKeys", "decryptCookie", "writeCookie",
	"beginPQDiscoverableHandshake", "beginPQHiddenHandshake", "handlePQClientHello", "handlePQClientRequestHidden",
	"finishHandshake", "clientHandshakeLocked", "CookieAD", "readPacketLocked", "DecryptCertificates", "readVector",
}

// cases of the message-type switch in Server.readPacket
var dispatchCases = []string{
	"MessageTypeClientHello", "MessageTypeClientAck", "MessageTypeClientAuth", "MessageTypeServerHello",
	"MessageTypeTransport", "MessageTypeClientRequestHidden", "default",
}

func exprStr(e ast.Expr) string { return types.ExprString(e) }

func constantInt(tv types.TypeAndValue) (int64, bool) {
	if tv.Value == nil || tv.Value.Kind() != constant.Int {
		return 0, false
	}
	return constant.Int64Val(tv.Value)
}

// leaves reports whether a block ends the current attempt: it contains a return or a continue.
func leaves(b *ast.BlockStmt) bool {
	found := false
	ast.Inspect(b, func(n ast.Node) bool {
		switch s := n.(type) {
		case *ast.ReturnStmt:
			found = true
		case *ast.BranchStmt:
			if s.Tok == token.CONTINUE {
				found = true
			}
		case *ast.FuncLit:
			return false
		}
		return !found
	})
	return found
}

// reslicedVars lists variables that a statement list advances with `v = v[k:]`.
func reslicedVars(list []ast.Stmt) []string {
	seen := map[string]bool{}
	var out []string
	for _, st := range list {
		as, ok := st.(*ast.AssignStmt)
		if !ok || len(as.Lhs) != 1 || len(as.Rhs) != 1 {
			continue
		}
		id, ok := as.Lhs[0].(*ast.Ident)
		if !ok {
			continue
		}
		if se, ok := as.Rhs[0].(*ast.SliceExpr); ok {
			if x, ok := se.X.(*ast.Ident); ok && x.Name == id.Name && !seen[id.Name] {
				seen[id.Name] = true
				out = append(out, id.Name)
			}
		}
	}
	return out
}

// resetFirst: the first assignment to v in the list does not mention v on its right-hand side.
func resetFirst(list []ast.Stmt, v string) bool {
	for _, st := range list {
		as, ok := st.(*ast.AssignStmt)
		if !ok || len(as.Lhs) != 1 || len(as.Rhs) != 1 {
			continue
		}
		if id, ok := as.Lhs[0].(*ast.Ident); ok && id.Name == v {
			mentions := false
			ast.Inspect(as.Rhs[0], func(n ast.Node) bool {
				if x, ok := n.(*ast.Ident); ok && x.Name == v {
					mentions = true
				}
				return !mentions
			})
			return !mentions
		}
	}
	return false
}

func callOf(e ast.Expr) (*ast.CallExpr, string) {
	c, ok := e.(*ast.CallExpr)
	if !ok {
		return nil, ""
	}
	return c, exprStr(c.Fun)
}

type progBuilder struct {
	ops        []string
	pendingMac bool
	cases      map[string][]string // sub-programs of a switch (Server.readPacket)
	defs       map[string]ast.Expr // local `name := expr` definitions (for length expressions)
	info       *types.Info
	msgVars    map[string]bool // variables that are (views of / copies of) the message being read or written
}

// canon renders an expression independently of local variable names: views of the message become
// `msg[lo:hi]`, locals are replaced by their defining expression (a slice of the message, a DH or
// KEM computation, …).  What remains are constants, struct field paths and method names.
func (p *progBuilder) canon(e ast.Expr, depth int) string {
	// the operand itself, if it is a local variable, is replaced by its defining expression — once
	switch x := e.(type) {
	case *ast.Ident:
		if !p.msgVars[x.Name] {
			if d, ok := p.defs[x.Name]; ok && depth == 0 {
				return p.inner(d)
			}
		}
	case *ast.StarExpr:
		if id, ok := x.X.(*ast.Ident); ok && depth == 0 {
			if d, ok := p.defs[id.Name]; ok && !p.msgVars[id.Name] {
				return "*" + p.inner(d)
			}
		}
	}
	return p.inner(e)
}

// timeCond renders the hidden-mode timestamp condition independently of variable names: locals are
// replaced by their definitions, the 64-bit big-endian decoding of the timestamp field becomes TS
// and the clock reading NOW; what remains are the comparisons, conversions and the constant.
func (p *progBuilder) timeCond(e ast.Expr) string {
	var subst func(e ast.Expr, depth int) string
	subst = func(e ast.Expr, depth int) string {
		switch x := e.(type) {
		case *ast.Ident:
			if d, ok := p.defs[x.Name]; ok && depth < 3 {
				return subst(d, depth+1)
			}
			return x.Name
		case *ast.ParenExpr:
			return "(" + subst(x.X, depth) + ")"
		case *ast.BinaryExpr:
			return subst(x.X, depth) + " " + x.Op.String() + " " + subst(x.Y, depth)
		case *ast.UnaryExpr:
			return x.Op.String() + subst(x.X, depth)
		case *ast.CallExpr:
			fn := exprStr(x.Fun)
			if fn == "binary.BigEndian.Uint64" {
				return "TS"
			}
			if fn == "time.Now().Unix" {
				return "NOW"
			}
			var args []string
			for _, a := range x.Args {
				args = append(args, subst(a, depth))
			}
			return fn + "(" + strings.Join(args, ", ") + ")"
		}
		return exprStr(e)
	}
	return subst(e, 0)
}

// inner replaces views of the message by `msg[lo:hi]` and leaves every other name alone.
func (p *progBuilder) inner(e ast.Expr) string {
	switch x := e.(type) {
	case *ast.Ident:
		if p.msgVars[x.Name] {
			return "msg"
		}
		return x.Name
	case *ast.ParenExpr:
		return "(" + p.inner(x.X) + ")"
	case *ast.StarExpr:
		return "*" + p.inner(x.X)
	case *ast.UnaryExpr:
		return x.Op.String() + p.inner(x.X)
	case *ast.SliceExpr:
		base := p.inner(x.X)
		lo, hi := "", ""
		if x.Low != nil {
			lo = exprStr(x.Low)
		}
		if x.High != nil {
			hi = exprStr(x.High)
		}
		if base == "msg" && lo == "" && hi == "" {
			return "msg"
		}
		return base + "[" + lo + ":" + hi + "]"
	case *ast.SelectorExpr:
		return p.inner(x.X) + "." + x.Sel.Name
	case *ast.CallExpr:
		var args []string
		for _, a := range x.Args {
			args = append(args, p.inner(a))
		}
		return p.inner(x.Fun) + "(" + strings.Join(args, ", ") + ")"
	}
	return exprStr(e)
}

func (p *progBuilder) noteAssign(lhs []ast.Expr, rhs []ast.Expr) {
	if p.defs == nil {
		p.defs = map[string]ast.Expr{}
	}
	if p.msgVars == nil {
		p.msgVars = map[string]bool{}
	}
	if len(rhs) == 1 {
		for _, l := range lhs {
			id, ok := l.(*ast.Ident)
			if !ok || id.Name == "_" || id.Name == "err" {
				continue
			}
			c := p.inner(rhs[0])
			if len(lhs) == 1 && (c == "msg" || (strings.HasPrefix(c, "msg[") && strings.HasSuffix(c, ":]"))) {
				// `x := b`, `b = b[k:]`: still the message (what is left of it)
				p.msgVars[id.Name] = true
				continue
			}
			if p.msgVars[id.Name] && len(lhs) == 1 {
				if _, isMake := rhs[0].(*ast.CallExpr); !isMake {
					delete(p.msgVars, id.Name)
				}
			}
			p.defs[id.Name] = rhs[0]
		}
	}
}

// linear evaluates a length expression to a + b*n where n is the encrypted-certificates length
// taken from the message header; ok=false when the expression is not of that form.
func (p *progBuilder) linear(e ast.Expr, depth int) (a, b int64, ok bool) {
	if depth > 6 {
		return 0, 0, false
	}
	if p.info != nil {
		if tv, found := p.info.Types[e]; found && tv.Value != nil {
			if v, exact := constantInt(tv); exact {
				return v, 0, true
			}
		}
	}
	switch x := e.(type) {
	case *ast.ParenExpr:
		return p.linear(x.X, depth+1)
	case *ast.Ident:
		switch x.Name {
		case "encCertsLen", "encryptedCertLen", "encCertLen":
			return 0, 1, true
		}
		if d, found := p.defs[x.Name]; found {
			return p.linear(d, depth+1)
		}
	case *ast.BinaryExpr:
		a1, b1, ok1 := p.linear(x.X, depth+1)
		a2, b2, ok2 := p.linear(x.Y, depth+1)
		if !ok1 || !ok2 {
			return 0, 0, false
		}
		switch x.Op {
		case token.ADD:
			return a1 + a2, b1 + b2, true
		case token.MUL:
			if b1 == 0 {
				return a1 * a2, a1 * b2, true
			}
			if b2 == 0 {
				return a1 * a2, b1 * a2, true
			}
		}
	}
	return 0, 0, false
}

func q(s string) string { return leanString(s) }

func (p *progBuilder) emit(format string, a ...any) {
	if p.pendingMac && !strings.HasPrefix(format, ".macCheck") {
		// squeezed into macBuf but overwritten/ignored before any comparison
		p.pendingMac = false
		p.ops = append(p.ops, ".squeezeOut "+q("macBuf (not compared)"))
	}
	p.ops = append(p.ops, fmt.Sprintf(format, a...))
}

func b2l(b bool) string {
	if b {
		return "true"
	}
	return "false"
}

// errChecked: is the statement following index i an `if err != nil {… return/continue …}`?
func errChecked(list []ast.Stmt, i int) bool {
	for i+1 < len(list) {
		es, ok := list[i+1].(*ast.ExprStmt)
		if !ok {
			break
		}
		if c, fn := callOf(es.X); c == nil || !strings.HasPrefix(fn, "logrus.") {
			break
		}
		i++
	}
	if i+1 >= len(list) {
		return false
	}
	ifs, ok := list[i+1].(*ast.IfStmt)
	if !ok {
		return false
	}
	c := exprStr(ifs.Cond)
	return strings.Contains(c, "err != nil") && leaves(ifs.Body)
}

func (p *progBuilder) call(c *ast.CallExpr, fn string, list []ast.Stmt, i int) {
	arg := func(k int) string {
		if k < len(c.Args) {
			return exprStr(c.Args[k])
		}
		return ""
	}
	carg := func(k int) string {
		if k < len(c.Args) {
			return p.canon(c.Args[k], 0)
		}
		return ""
	}
	switch {
	case strings.HasSuffix(fn, "duplex.Absorb"):
		p.emit(".absorb %s", q(carg(0)))
	case strings.HasSuffix(fn, "duplex.Squeeze"):
		if strings.Contains(arg(0), "macBuf") {
			p.pendingMac = true
		} else {
			p.emit(".squeezeOut %s", q(carg(0)))
		}
	case strings.HasSuffix(fn, "duplex.Encrypt"):
		p.emit(".encrypt %s", q(carg(1)))
	case strings.HasSuffix(fn, "duplex.Decrypt"):
		p.emit(".decrypt %s true", q(carg(1)))
	case strings.HasSuffix(fn, "EncryptSNI"):
		p.emit(".encrypt %s", q("SNI"))
	case fn == "EncryptCertificates":
		p.emit(".encrypt %s", q("certs"))
	case fn == "DecryptCertificates":
		p.emit(".decrypt %s %s", q(carg(1)), b2l(errChecked(list, i)))
	case strings.HasSuffix(fn, "certificateParserAndVerifier"):
		p.emit(".verifyCerts %s", b2l(errChecked(list, i)))
	case strings.HasSuffix(fn, "RekeyFromSqueeze"):
		p.emit(".rekey")
	case fn == "make" && len(c.Args) >= 2:
		p.emit(".compute %s true", q("make("+arg(1)+")"))
	case fn == "h.Write":
		// hash input of CookieAD
		p.emit(".absorb %s", q("hash:"+arg(0)))
	case fn == "CookieAD":
		p.emit(".compute %s true", q("CookieAD("+arg(0)+", "+arg(1)+")"))
	case strings.HasSuffix(fn, ".DH") || strings.HasSuffix(fn, ".Agree") || strings.HasSuffix(fn, ".Decapsulate") ||
		fn == "keys.Encapsulate" || strings.HasSuffix(fn, "decryptCookie") || strings.HasSuffix(fn, "writeCookie") ||
		strings.HasSuffix(fn, "ReplayPQDuplexFromCookie") || strings.HasSuffix(fn, "aead.Open") || strings.HasSuffix(fn, "aead.Seal") ||
		strings.HasSuffix(fn, "GetCertificate") || strings.HasSuffix(fn, "GetCertList") ||
		strings.HasSuffix(fn, "duplex.Ratchet") || strings.HasSuffix(fn, "duplex.InitializeEmpty"):
		short := fn
		if k := strings.LastIndex(fn, "."); k >= 0 {
			short = fn[k+1:]
		}
		what := short
		if len(c.Args) > 0 && (short == "DH" || short == "Agree" || short == "Decapsulate") {
			what = p.canon(c, 0)
		}
		p.emit(".compute %s %s", q(what), b2l(errChecked(list, i)))
	default:
		short := fn
		if k := strings.LastIndex(fn, "."); k >= 0 {
			short = fn[k+1:]
		}
		for _, pre := range []string{"readPQ", "writePQ", "handlePQ", "beginPQ", "handleSessionMessage", "finishHandshake",
			"setHandshakeState", "writePacket", "WriteMsgUDP", "ReadMsgUDP", "deriveFinalKeys", "createSessionFromHandshakeLocked"} {
			if strings.HasPrefix(short, pre) {
				p.emit(".compute %s %s", q(short), b2l(errChecked(list, i)))
				break
			}
		}
	}
}

func (p *progBuilder) walk(list []ast.Stmt) {
	for i, st := range list {
		switch s := st.(type) {
		case *ast.ExprStmt:
			if c, fn := callOf(s.X); c != nil {
				if fn == "copy" && len(c.Args) == 2 {
					if id, ok := c.Args[0].(*ast.Ident); ok && p.inner(c.Args[1]) == "msg" {
						if p.msgVars == nil {
							p.msgVars = map[string]bool{}
						}
						p.msgVars[id.Name] = true
					}
				}
				p.call(c, fn, list, i)
			}
		case *ast.AssignStmt:
			if len(s.Lhs) == 1 && len(s.Rhs) == 1 {
				if strings.HasSuffix(exprStr(s.Lhs[0]), ".certVerify") {
					p.emit(".compute %s true", q("set certVerify = "+exprStr(s.Rhs[0])))
				}
			}
			// overwriting a whole handshake state (`*hs = HandshakeState{…}`) replaces the attached
			// verification policy as well, unless the literal carries it over
			for k, l := range s.Lhs {
				st, ok := l.(*ast.StarExpr)
				if !ok || k >= len(s.Rhs) {
					continue
				}
				if tv, ok := p.info.Types[st.X]; ok && strings.HasSuffix(tv.Type.String(), "HandshakeState") {
					p.emit(".compute %s true", q("set certVerify = (whole state overwritten) "+exprStr(s.Rhs[k])))
				}
			}
			for _, r := range s.Rhs {
				if c, fn := callOf(r); c != nil {
					p.call(c, fn, list, i)
				}
			}
			p.noteAssign(s.Lhs, s.Rhs)
		case *ast.DeclStmt:
			// var x = f(...) is not used by the handshake code
		case *ast.IfStmt:
			cond := exprStr(s.Cond)
			// `if err := f(); err != nil` style
			if s.Init != nil {
				if as, ok := s.Init.(*ast.AssignStmt); ok {
					for _, r := range as.Rhs {
						if c, fn := callOf(r); c != nil {
							// `if err := f(); err != nil { return }`: the if itself is the error check
							p.call(c, fn, []ast.Stmt{st, &ast.IfStmt{Cond: s.Cond, Body: s.Body}}, 0)
						}
					}
				}
			}
			switch {
			case strings.Contains(cond, "bytes.Equal(hs.macBuf") || strings.Contains(cond, "bytes.Equal(out.macBuf"):
				arg := cond
				if c, ok := s.Cond.(*ast.UnaryExpr); ok {
					if call, ok := c.X.(*ast.CallExpr); ok && len(call.Args) == 2 {
						arg = p.canon(call.Args[1], 0)
					}
				}
				p.emit(".macCheck %s %s", q(arg), b2l(leaves(s.Body)))
				p.pendingMac = false
			case strings.HasPrefix(cond, "len(b) <") || strings.HasPrefix(cond, "len(x) <"):
				if leaves(s.Body) {
					var a, b int64
					if be, ok := s.Cond.(*ast.BinaryExpr); ok {
						if la, lb, lok := p.linear(be.Y, 0); lok {
							a, b = la, lb
						}
					}
					p.emit(".lenGuard %s %d %d", q(strings.TrimSpace(cond[strings.Index(cond, "<")+1:])), a, b)
				}
			case strings.Contains(cond, "PlaintextLen(len(msg)) <"):
				p.emit(".constCheck %s %s", q(cond), b2l(leaves(s.Body)))
			case strings.Contains(cond, "HiddenModeTimestampExpiration"):
				p.emit(".timeCheck %s %s", q(p.timeCond(s.Cond)), b2l(leaves(s.Body)))
			case cond == "!s.config.IsHidden":
				p.emit(".constCheck %s true", q(cond))
				p.walk(s.Body.List)
			case strings.Contains(cond, "err != nil") || strings.Contains(cond, "err == nil"):
				// accounted for by errChecked of the preceding call; `if err := f(); err != nil`
				// handled above through Init
			case strings.Contains(cond, "b[") || strings.Contains(cond, "x[") || strings.Contains(cond, "sessionID") ||
				strings.Contains(cond, "n != ") || strings.Contains(cond, "len(") || strings.Contains(cond, "c == nil") ||
				strings.Contains(cond, "MessageType") || strings.Contains(cond, "msgLen") || strings.Contains(cond, "n < ") ||
				strings.Contains(cond, "KEMKeyPair == nil"):
				p.emit(".constCheck %s %s", q(cond), b2l(leaves(s.Body)))
			default:
				// a branch on configuration or state: both arms belong to the program
				p.walk(s.Body.List)
				if eb, ok := s.Else.(*ast.BlockStmt); ok {
					p.walk(eb.List)
				}
			}
		case *ast.SwitchStmt:
			for _, cc := range s.Body.List {
				clause := cc.(*ast.CaseClause)
				name := "default"
				if len(clause.List) > 0 {
					name = exprStr(clause.List[0])
				}
				sub := &progBuilder{info: p.info, msgVars: p.msgVars, defs: p.defs}
				sub.walk(clause.Body)
				if p.cases == nil {
					p.cases = map[string][]string{}
				}
				p.cases[name] = sub.ops
			}
		case *ast.ForStmt:
			p.walk(s.Body.List)
		case *ast.RangeStmt:
			// a per-item loop that consumes a working slice must start every iteration from the
			// whole buffer: is the first assignment to a variable that the body re-slices
			// (`v = v[k:]`) one that does not depend on v's previous value?
			for _, v := range reslicedVars(s.Body.List) {
				p.emit(".compute %s %s", q("loop: "+v+" reset per iteration"), b2l(resetFirst(s.Body.List, v)))
			}
			p.walk(s.Body.List)
		case *ast.BlockStmt:
			p.walk(s.List)
		}
	}
	if p.pendingMac {
		// a MAC was squeezed into macBuf and never compared
		p.emit(".macCheck %s false", q("<never compared>"))
		p.pendingMac = false
	}
}

// newProg starts a program for a function: its []byte parameters are the message.
func newProg(fd *ast.FuncDecl, info *types.Info) *progBuilder {
	p := &progBuilder{info: info, msgVars: map[string]bool{}, defs: map[string]ast.Expr{}}
	if fd.Type.Params != nil {
		for _, f := range fd.Type.Params.List {
			if exprStr(f.Type) == "[]byte" {
				for _, n := range f.Names {
					p.msgVars[n.Name] = true
				}
			}
		}
	}
	return p
}

// structural facts: the operation program of every handshake reader/writer, and the dispatch
// facts of Server.readPacket.
func structural(l *loader, facts map[string]any, out string) {
	progs := map[string][]string{}
	for _, f := range l.files["transport"] {
		for _, d := range f.Decls {
			fd, ok := d.(*ast.FuncDecl)
			if !ok || fd.Body == nil {
				continue
			}
			for _, want := range hsFuncs {
				if fd.Name.Name == want {
					p := newProg(fd, l.infos["transport"])
					p.walk(fd.Body.List)
					progs[want] = p.ops
				}
			}
			if fd.Name.Name == "handleSessionMessage" && fd.Recv != nil {
				p := newProg(fd, l.infos["transport"])
				p.walk(fd.Body.List)
				recv := "Server"
				if strings.Contains(exprStr(fd.Recv.List[0].Type), "Client") {
					recv = "Client"
				}
				progs["handleSessionMessage_"+recv] = p.ops
			}
			if fd.Name.Name == "readPacket" && fd.Recv != nil {
				p := newProg(fd, l.infos["transport"])
				p.walk(fd.Body.List)
				progs["readPacket"] = p.ops
				for _, c := range dispatchCases {
					progs["readPacket_"+c] = p.cases[c]
				}
			}
		}
	}
	var b strings.Builder
	b.WriteString("/- GENERATED by harness/extract from /repo's current source on every run. Do not edit. -/\n")
	b.WriteString("import HopModel.Base.HOp\nnamespace Generated\nopen HOp\n\n")
	names := append([]string(nil), hsFuncs...)
	names = append(names, "readPacket", "handleSessionMessage_Server", "handleSessionMessage_Client")
	for _, c := range dispatchCases {
		names = append(names, "readPacket_"+c)
	}
	sort.Strings(names)
	for _, n := range names {
		ops := progs[n] // absent function: empty program, every theorem about it fails
		fmt.Fprintf(&b, "def prog_%s : List HOp := [", n)
		for i, o := range ops {
			if i > 0 {
				b.WriteString(",")
			}
			b.WriteString("\n  " + o)
		}
		b.WriteString("]\n\n")
	}
	b.WriteString("end Generated\n")
	os.WriteFile(filepath.Join(out, "HandshakeOps.lean"), []byte(b.String()), 0o644)
	facts["handshake_programs"] = progs
}

// ---------------------------------------------------------------- statement shapes
//
// For a few small functions whose *order of statements* is what a model rests on, the translator
// emits the statements as a list of items ⟨depth, kind, text⟩ in source order, `if` / `for` /
// `switch` / `select` headers followed by their bodies one level deeper (function literals are
// descended into as well).  The Lean side states what it needs about that order (Props files).

var shapeFuncs = []struct{ pkg, recv, name string }{
	{"common", "Deadline", "SetDeadline"},
	{"common", "Deadline", "timeoutFor"},
	{"authgrants", "AuthgrantMapSync", "RemoveAuthgrants"},
	{"authgrants", "AuthgrantMapSync", "AddAuthGrant"},
	{"tubes", "Reliable", "send"},
	{"tubes", "Unreliable", "initiate"},
	{"tubes", "Reliable", "initiate"},
	{"transport", "Client", "clientHandshakeLocked"},
	{"tubes", "Muxer", "sender"},
}

func recvName(fd *ast.FuncDecl) string {
	if fd.Recv == nil || len(fd.Recv.List) == 0 {
		return ""
	}
	t := fd.Recv.List[0].Type
	if s, ok := t.(*ast.StarExpr); ok {
		t = s.X
	}
	if ix, ok := t.(*ast.IndexExpr); ok {
		t = ix.X
	}
	return exprStr(t)
}

func shapeStmts(list []ast.Stmt, depth int, out *[]string) {
	// head: the assigned / incremented operand, or the called function ("" otherwise)
	addH := func(kind, head, text string) {
		*out = append(*out, fmt.Sprintf("⟨%d, %s, %s, %s⟩", depth, leanString(kind), leanString(head), leanString(text)))
	}
	add := func(kind, text string) { addH(kind, "", text) }
	lits := func(n ast.Node) {
		ast.Inspect(n, func(x ast.Node) bool {
			if fl, ok := x.(*ast.FuncLit); ok {
				shapeStmts(fl.Body.List, depth+1, out)
				return false
			}
			return true
		})
	}
	for _, st := range list {
		switch s := st.(type) {
		case *ast.IfStmt:
			if s.Init != nil {
				// `if x := f(); cond`: the initialiser is a statement of its own, at the same depth
				shapeStmts([]ast.Stmt{s.Init}, depth, out)
			}
			add("if", exprStr(s.Cond))
			shapeStmts(s.Body.List, depth+1, out)
			switch e := s.Else.(type) {
			case *ast.BlockStmt:
				add("else", "")
				shapeStmts(e.List, depth+1, out)
			case *ast.IfStmt:
				add("else", "")
				shapeStmts([]ast.Stmt{e}, depth+1, out)
			}
		case *ast.ForStmt:
			add("for", "")
			shapeStmts(s.Body.List, depth+1, out)
		case *ast.RangeStmt:
			add("for", exprStr(s.X))
			shapeStmts(s.Body.List, depth+1, out)
		case *ast.SelectStmt:
			add("select", "")
			for _, c := range s.Body.List {
				cc := c.(*ast.CommClause)
				if cc.Comm == nil {
					add("default", "")
				} else {
					add("case", "")
					shapeStmts([]ast.Stmt{cc.Comm}, depth+1, out)
				}
				shapeStmts(cc.Body, depth+1, out)
			}
		case *ast.SwitchStmt:
			tag := ""
			if s.Tag != nil {
				tag = exprStr(s.Tag)
			}
			add("switch", tag)
			for _, c := range s.Body.List {
				cc := c.(*ast.CaseClause)
				var es []string
				for _, e := range cc.List {
					es = append(es, exprStr(e))
				}
				if cc.List == nil {
					add("default", "")
				} else {
					add("case", strings.Join(es, ", "))
				}
				shapeStmts(cc.Body, depth+1, out)
			}
		case *ast.BlockStmt:
			shapeStmts(s.List, depth, out)
		case *ast.LabeledStmt:
			shapeStmts([]ast.Stmt{s.Stmt}, depth, out)
		case *ast.DeclStmt:
			add("decl", "")
		case *ast.ReturnStmt:
			var rs []string
			for _, r := range s.Results {
				rs = append(rs, exprStr(r))
			}
			add("return", strings.Join(rs, ", "))
		case *ast.IncDecStmt:
			addH("incdec", exprStr(s.X), exprStr(s.X)+s.Tok.String())
		case *ast.AssignStmt:
			var l, r []string
			for _, x := range s.Lhs {
				l = append(l, exprStr(x))
			}
			for _, x := range s.Rhs {
				r = append(r, exprStr(x))
			}
			rhsHead := ""
			if len(s.Rhs) == 1 {
				if c, ok := s.Rhs[0].(*ast.CallExpr); ok {
					rhsHead = " <- " + exprStr(c.Fun)
				}
			}
			addH("assign", strings.Join(l, ", ")+rhsHead, strings.Join(l, ", ")+" "+s.Tok.String()+" "+strings.Join(r, ", "))
			lits(s)
		case *ast.ExprStmt:
			if c, ok := s.X.(*ast.CallExpr); ok {
				var as []string
				for _, a := range c.Args {
					as = append(as, exprStr(a))
				}
				addH("call", exprStr(c.Fun), exprStr(c.Fun)+"("+strings.Join(as, ", ")+")")
			} else {
				add("expr", exprStr(s.X))
			}
			lits(s)
		case *ast.DeferStmt:
			add("defer", exprStr(s.Call.Fun))
		case *ast.GoStmt:
			add("go", exprStr(s.Call.Fun))
			lits(s)
		case *ast.BranchStmt:
			add("branch", s.Tok.String())
		case *ast.SendStmt:
			add("send", exprStr(s.Chan)+" <- "+exprStr(s.Value))
		default:
			add("other", fmt.Sprintf("%T", st))
		}
	}
}

func shapes(l *loader, out string) {
	var b strings.Builder
	b.WriteString("/- GENERATED by harness/extract from /repo's current source on every run. Do not edit. -/\n")
	b.WriteString("import HopModel.Base.Shape\nnamespace Generated\n\n")
	for _, sf := range shapeFuncs {
		var items []string
		for _, f := range l.files[sf.pkg] {
			for _, d := range f.Decls {
				fd, ok := d.(*ast.FuncDecl)
				if !ok || fd.Name.Name != sf.name || recvName(fd) != sf.recv || fd.Body == nil {
					continue
				}
				shapeStmts(fd.Body.List, 0, &items)
			}
		}
		// an absent function has the empty shape: every obligation about it fails
		fmt.Fprintf(&b, "def shape_%s_%s_%s : List Shape.Item := [", sf.pkg, sf.recv, sf.name)
		for i, it := range items {
			if i > 0 {
				b.WriteString(",")
			}
			b.WriteString("\n  " + it)
		}
		b.WriteString("]\n\n")
	}
	b.WriteString("end Generated\n")
	os.WriteFile(filepath.Join(out, "Shapes.lean"), []byte(b.String()), 0o644)
}
