package main

// structural facts (filled in as models that need them are added)
func structural(l *loader, facts map[string]any, out string) {
}
