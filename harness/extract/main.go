// Command extract is the translator of the G-tie: it reads hop-go's current source with go/parser
// and go/types (standard library only) and regenerates Lean files with what the code says *now*:
//
//	Generated/Consts.lean   every package-level constant of the listed packages whose value the
//	                        type checker can evaluate (protocol sizes, type codes, flag bits, ...)
//	facts.json              the same facts plus structural facts (see structural.go)
//
// A fact the translator cannot establish is not guessed: it is left out, and a theorem or
// `example` that mentions it then fails to elaborate.
package main

import (
	"encoding/json"
	"flag"
	"fmt"
	"go/ast"
	"go/build"
	"go/constant"
	"go/parser"
	"go/token"
	"go/types"
	"os"
	"os/exec"
	"path/filepath"
	"sort"
	"strings"
)

const modPath = "hop.computer/hop"

var pkgsWanted = []string{
	"transport", "tubes", "certs", "authgrants", "common", "codex", "keys", "kravatte",
	"cyclist", "snp", "hopserver", "portforwarding", "userauth", "core", "pkg/glob", "config",
}

type loader struct {
	repo  string
	fset  *token.FileSet
	pkgs  map[string]*types.Package
	files map[string][]*ast.File
	infos map[string]*types.Info
}

func (l *loader) Import(path string) (*types.Package, error) {
	if path == "unsafe" {
		return types.Unsafe, nil
	}
	if p, ok := l.pkgs[path]; ok {
		return p, nil
	}
	if strings.HasPrefix(path, modPath+"/") {
		return l.load(strings.TrimPrefix(path, modPath+"/"))
	}
	// a few external packages define protocol sizes (ML-KEM, X25519): load them from the module
	// cache the same permissive way
	for _, pre := range []string{"github.com/cloudflare/circl/", "golang.org/x/crypto/curve25519"} {
		if strings.HasPrefix(path, pre) {
			if p, err := l.loadExternal(path); err == nil && p != nil {
				return p, nil
			}
		}
	}
	// other external and standard-library packages are opaque: an empty, complete package.
	// Anything that needs them fails to type-check and is simply not reported as a fact.
	name := path[strings.LastIndex(path, "/")+1:]
	p := types.NewPackage(path, name)
	p.MarkComplete()
	l.pkgs[path] = p
	return p, nil
}

func (l *loader) loadExternal(path string) (*types.Package, error) {
	cmd := exec.Command("go", "list", "-f", "{{.Dir}}", path)
	cmd.Dir = l.repo
	out, err := cmd.Output()
	if err != nil {
		return nil, err
	}
	dir := strings.TrimSpace(string(out))
	if dir == "" {
		return nil, fmt.Errorf("no directory for %s", path)
	}
	return l.loadDir(path, dir, "ext:"+path)
}

func (l *loader) load(rel string) (*types.Package, error) {
	return l.loadDir(modPath+"/"+rel, filepath.Join(l.repo, rel), rel)
}

func (l *loader) loadDir(path, dir, rel string) (*types.Package, error) {
	if p, ok := l.pkgs[path]; ok {
		return p, nil
	}
	ents, err := os.ReadDir(dir)
	if err != nil {
		return nil, err
	}
	ctx := build.Default
	ctx.BuildTags = nil // guard OFF: the facts describe the code as shipped
	var files []*ast.File
	for _, e := range ents {
		n := e.Name()
		if e.IsDir() || !strings.HasSuffix(n, ".go") || strings.HasSuffix(n, "_test.go") {
			continue
		}
		ok, err := ctx.MatchFile(dir, n)
		if err != nil || !ok {
			continue
		}
		f, err := parser.ParseFile(l.fset, filepath.Join(dir, n), nil, parser.ParseComments)
		if err != nil {
			return nil, err
		}
		files = append(files, f)
	}
	info := &types.Info{
		Types: map[ast.Expr]types.TypeAndValue{},
		Defs:  map[*ast.Ident]types.Object{},
		Uses:  map[*ast.Ident]types.Object{},
	}
	conf := types.Config{Importer: l, Error: func(error) {}, FakeImportC: true}
	name := rel[strings.LastIndex(rel, "/")+1:]
	if len(files) > 0 {
		name = files[0].Name.Name
	}
	// register early to cut import cycles (there are none, but be safe)
	p, _ := conf.Check(path, l.fset, files, info)
	if p == nil {
		p = types.NewPackage(path, name)
	}
	l.pkgs[path] = p
	l.files[rel] = files
	l.infos[rel] = info
	return p, nil
}

// bufferSizes: the lengths of the receive buffers that must hold whatever the layer below can deliver, as
// constants `<pkg>_<field>_size` (the length must be a constant expression; otherwise nothing is emitted and the
// obligation that mentions the constant no longer compiles)
func bufferSizes(l *loader) []constFact {
	var out []constFact
	want := []struct{ rel, field string }{{"tubes", "readBuf"}}
	for _, w := range want {
		info := l.infos[w.rel]
		if info == nil {
			continue
		}
		for _, f := range l.files[w.rel] {
			ast.Inspect(f, func(n ast.Node) bool {
				kv, ok := n.(*ast.KeyValueExpr)
				if !ok {
					return true
				}
				id, ok := kv.Key.(*ast.Ident)
				if !ok || id.Name != w.field {
					return true
				}
				call, ok := kv.Value.(*ast.CallExpr)
				if !ok || len(call.Args) < 2 {
					return true
				}
				if fn, ok := call.Fun.(*ast.Ident); !ok || fn.Name != "make" {
					return true
				}
				if tv, ok := info.Types[call.Args[1]]; ok && tv.Value != nil {
					if iv := constant.ToInt(tv.Value); iv.Kind() == constant.Int && constant.Sign(iv) >= 0 {
						out = append(out, constFact{w.rel, w.field + "_size", "nat", iv.ExactString()})
					}
				}
				return true
			})
		}
	}
	return out
}

type constFact struct {
	Pkg   string `json:"pkg"`
	Name  string `json:"name"`
	Kind  string `json:"kind"` // nat | int | string | bool
	Value string `json:"value"`
}

func leanIdent(pkg, name string) string {
	return strings.NewReplacer("/", "_", "-", "_").Replace(pkg) + "_" + name
}

func leanString(s string) string {
	var b strings.Builder
	b.WriteByte('"')
	for _, r := range s {
		switch {
		case r == '"':
			b.WriteString("\\\"")
		case r == '\\':
			b.WriteString("\\\\")
		case r == '\n':
			b.WriteString("\\n")
		case r == '\t':
			b.WriteString("\\t")
		case r < 0x20 || r == 0x7f:
			fmt.Fprintf(&b, "\\x%02x", r)
		default:
			b.WriteRune(r)
		}
	}
	b.WriteByte('"')
	return b.String()
}

func main() {
	repo := flag.String("repo", "/repo", "hop-go source tree")
	out := flag.String("out", "", "directory for Generated/*.lean")
	factsPath := flag.String("facts", "", "path for facts.json")
	flag.Parse()
	if *out == "" {
		fmt.Fprintln(os.Stderr, "usage: extract -repo DIR -out DIR [-facts FILE]")
		os.Exit(2)
	}
	l := &loader{repo: *repo, fset: token.NewFileSet(), pkgs: map[string]*types.Package{},
		files: map[string][]*ast.File{}, infos: map[string]*types.Info{}}
	var consts []constFact
	for _, rel := range pkgsWanted {
		p, err := l.load(rel)
		if err != nil {
			fmt.Fprintf(os.Stderr, "extract: %s: %v\n", rel, err)
			continue
		}
		sc := p.Scope()
		names := sc.Names()
		sort.Strings(names)
		for _, n := range names {
			c, ok := sc.Lookup(n).(*types.Const)
			if !ok || n == "_" {
				continue
			}
			v := c.Val()
			switch v.Kind() {
			case constant.Int:
				k := "nat"
				if constant.Sign(v) < 0 {
					k = "int"
				}
				consts = append(consts, constFact{rel, n, k, v.ExactString()})
			case constant.String:
				consts = append(consts, constFact{rel, n, "string", constant.StringVal(v)})
			case constant.Bool:
				consts = append(consts, constFact{rel, n, "bool", fmt.Sprint(constant.BoolVal(v))})
			case constant.Float:
				// durations written as float arithmetic etc.: keep integers only
				if iv := constant.ToInt(v); iv.Kind() == constant.Int {
					consts = append(consts, constFact{rel, n, "nat", iv.ExactString()})
				}
			}
		}
	}

	consts = append(consts, bufferSizes(l)...)

	// remove stale generated files first
	os.MkdirAll(*out, 0o755)
	old, _ := filepath.Glob(filepath.Join(*out, "*.lean"))
	for _, f := range old {
		os.Remove(f)
	}

	var b strings.Builder
	b.WriteString("/- GENERATED by harness/extract from /repo's current source on every run. Do not edit. -/\n")
	b.WriteString("namespace Generated\n\n")
	for _, c := range consts {
		id := leanIdent(c.Pkg, c.Name)
		switch c.Kind {
		case "nat":
			fmt.Fprintf(&b, "def %s : Nat := %s\n", id, c.Value)
		case "int":
			fmt.Fprintf(&b, "def %s : Int := %s\n", id, c.Value)
		case "bool":
			fmt.Fprintf(&b, "def %s : Bool := %s\n", id, c.Value)
		case "string":
			if len(c.Value) <= 200 {
				fmt.Fprintf(&b, "def %s : String := %s\n", id, leanString(c.Value))
			}
		}
	}
	b.WriteString("\nend Generated\n")
	if err := os.WriteFile(filepath.Join(*out, "Consts.lean"), []byte(b.String()), 0o644); err != nil {
		fmt.Fprintln(os.Stderr, err)
		os.Exit(1)
	}

	facts := map[string]any{"consts": consts}
	structural(l, facts, *out)
	shapes(l, *out)
	if *factsPath != "" {
		js, _ := json.MarshalIndent(facts, "", " ")
		os.WriteFile(*factsPath, js, 0o644)
	}
}
