// Package hvlib is the shared part of the Go side of the D-tie.  Each property has its own small
// main package (harness/cmd/cXX) that imports only the hop-go packages it needs, so that a change
// in one part of hop-go cannot break the harness of an unrelated property.  A harness generates
// operation files (`hv-Cxx <suite> gen`) and runs them against the real hop-go code in-process
// (`hv-Cxx <suite> run`), printing
// one canonicalised observable per operation.  The Lean driver `hopmodel Cxx` answers the same
// operations from the model; `check` diffs the two streams.
//
// Every random choice derives from one splitmix64 state seeded by -seed.
package hvlib

import (
	"bufio"
	"flag"
	"fmt"
	"io"
	"os"
	"sort"
	"strings"

	"github.com/sirupsen/logrus"
)

type Suite struct {
	// gen writes operation lines (cases start with a line whose first word is "new")
	Gen func(g *GenCtx)
	// run executes operation lines against the implementation
	Run func(in *bufio.Scanner, out *bufio.Writer)
}

type GenCtx struct {
	W    *bufio.Writer
	R    *Rng
	Tier string
	// part/parts split an exhaustive family across processes
	Part, Parts int
}

func (g *GenCtx) Op(format string, a ...any) {
	fmt.Fprintf(g.W, format, a...)
	g.W.WriteByte('\n')
}

func (g *GenCtx) Thorough() bool { return g.Tier == "thorough" }

// Main dispatches `<suite> gen|run`.
func Main(suites map[string]*Suite) {
	logrus.SetOutput(io.Discard)
	logrus.SetLevel(logrus.PanicLevel)
	if len(os.Args) < 3 {
		usage(suites)
	}
	name, cmd := os.Args[1], os.Args[2]
	s, ok := suites[name]
	if !ok {
		usage(suites)
	}
	fs := flag.NewFlagSet("hv", flag.ExitOnError)
	seed := fs.Uint64("seed", 1, "PRNG seed")
	tier := fs.String("tier", "quick", "quick|thorough")
	part := fs.Int("part", 0, "part index")
	parts := fs.Int("parts", 1, "number of parts")
	fs.Parse(os.Args[3:])
	out := bufio.NewWriterSize(os.Stdout, 1<<20)
	defer out.Flush()
	switch cmd {
	case "gen":
		// every part of a split run gets its own random stream
		s.Gen(&GenCtx{W: out, R: NewRng(*seed + uint64(*part)*0x51ED270B), Tier: *tier, Part: *part, Parts: *parts})
	case "run":
		sc := bufio.NewScanner(os.Stdin)
		sc.Buffer(make([]byte, 1<<20), 1<<26)
		s.Run(sc, out)
	default:
		usage(suites)
	}
}

func usage(suites map[string]*Suite) {
	var names []string
	for n := range suites {
		names = append(names, n)
	}
	sort.Strings(names)
	fmt.Fprintf(os.Stderr, "usage: %s <%s> gen [-seed N] [-tier quick|thorough] | run < ops > impl\n", os.Args[0], strings.Join(names, "|"))
	os.Exit(2)
}

// ---- PRNG ----

type Rng struct{ s uint64 }

// NewRng derives the generator state from the seed through the splitmix64 finaliser, so that
// neighbouring seeds give unrelated streams (with a linear derivation the stream of seed s+1 is
// the stream of seed s shifted by one draw).
func NewRng(seed uint64) *Rng {
	z := seed + 0x9E3779B97F4A7C15
	z = (z ^ (z >> 30)) * 0xBF58476D1CE4E5B9
	z = (z ^ (z >> 27)) * 0x94D049BB133111EB
	return &Rng{s: z ^ (z >> 31)}
}

func (r *Rng) U64() uint64 {
	r.s += 0x9E3779B97F4A7C15
	z := r.s
	z = (z ^ (z >> 30)) * 0xBF58476D1CE4E5B9
	z = (z ^ (z >> 27)) * 0x94D049BB133111EB
	return z ^ (z >> 31)
}

func (r *Rng) Intn(n int) int {
	if n <= 0 {
		return 0
	}
	return int(r.U64() % uint64(n))
}

func (r *Rng) Chance(num, den int) bool { return r.Intn(den) < num }

func (r *Rng) Bytes(n int) []byte {
	b := make([]byte, n)
	for i := range b {
		b[i] = byte(r.U64())
	}
	return b
}

func Pick[T any](r *Rng, xs []T) T { return xs[r.Intn(len(xs))] }

// ---- helpers ----

func HexOrDash(b []byte) string {
	if len(b) == 0 {
		return "-"
	}
	return fmt.Sprintf("%x", b)
}

func Unhex(s string) ([]byte, bool) {
	if s == "-" {
		return nil, true
	}
	if len(s)%2 != 0 {
		return nil, false
	}
	b := make([]byte, len(s)/2)
	for i := range b {
		var v byte
		for j := 0; j < 2; j++ {
			c := s[2*i+j]
			switch {
			case c >= '0' && c <= '9':
				v = v<<4 | (c - '0')
			case c >= 'a' && c <= 'f':
				v = v<<4 | (c - 'a' + 10)
			case c >= 'A' && c <= 'F':
				v = v<<4 | (c - 'A' + 10)
			default:
				return nil, false
			}
		}
		b[i] = v
	}
	return b, true
}

// StripExpect splits off a trailing word "=<published value>" (vector replay): the harness
// compares its own output with the value, the model ignores the word.
func StripExpect(f []string) ([]string, string) {
	if n := len(f); n > 1 && strings.HasPrefix(f[n-1], "=") {
		return f[:n-1], strings.ToLower(f[n-1][1:])
	}
	return f, ""
}

// Script handles a line `new ; op ; op ; …` (a whole transcript as one indivisible case): it runs
// the operations in order through exec — with the "=value" convention of StripExpect — and joins
// their outputs with ";".  ok is false when the line is not of that form.
func Script(f []string, exec func([]string) string) (res string, ok bool) {
	if len(f) < 2 || f[0] != "new" || f[1] != ";" {
		return "", false
	}
	var outs []string
	var cur []string
	flush := func() {
		outs = append(outs, ExecExpect(cur, exec))
		cur = nil
	}
	for _, w := range f[2:] {
		if w == ";" {
			flush()
		} else {
			cur = append(cur, w)
		}
	}
	flush()
	return strings.Join(outs, ";"), true
}

// ExecExpect runs one operation; if it carries "=value" and the output differs, the output gets
// the suffix " !vector".
func ExecExpect(f []string, exec func([]string) string) string {
	f, expect := StripExpect(f)
	res := exec(f)
	if expect != "" && res != "bad-op" && res != expect {
		res += " !vector"
	}
	return res
}

// guard runs f and maps a panic to the observable "panic".
func Guard(f func() string) (res string) {
	defer func() {
		if e := recover(); e != nil {
			res = "panic"
		}
	}()
	return f()
}
