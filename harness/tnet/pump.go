package tnet

import (
	"net"
)

// Hook lets a caller observe and alter the datagrams exchanged during a handshake.
// dir is "c2s" or "s2c", idx counts the datagrams of that direction from 0.
// It returns the datagrams to deliver instead (nil = drop).
type Hook func(dir string, idx int, data []byte) [][]byte

// Pump runs a handshake between cl and sv by moving datagrams between them until neither side has
// anything left to say. from is the source address the server sees for the client's datagrams.
// It returns every datagram seen, in order.
func Pump(sv *Srv, cl *Cli, from *net.UDPAddr, hook Hook) []Dgram {
	var all []Dgram
	nc, ns := 0, 0
	cl.Start()
	for round := 0; round < 16; round++ {
		moved := false
		for _, d := range cl.Conn.Drain() {
			moved = true
			all = append(all, d)
			out := [][]byte{d.Data}
			if hook != nil {
				out = hook("c2s", nc, d.Data)
			}
			nc++
			for _, b := range out {
				sv.Deliver(b, from)
			}
		}
		for _, d := range sv.Conn.Drain() {
			moved = true
			all = append(all, d)
			out := [][]byte{d.Data}
			if hook != nil {
				out = hook("s2c", ns, d.Data)
			}
			ns++
			for _, b := range out {
				if cl.Finished() && cl.HSErr != nil {
					continue
				}
				cl.Deliver(b, ServerAddr)
			}
		}
		if !moved {
			break
		}
	}
	return all
}
