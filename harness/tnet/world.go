package tnet

import (
	"crypto/rand"
	"fmt"
	"net"
	"time"

	"hop.computer/hop/authkeys"
	"hop.computer/hop/certs"
	"hop.computer/hop/keys"
	"hop.computer/hop/transport"
)

const Watchdog = 20 * time.Second

// PKI is a small certificate world: one trusted root with an intermediate, and a second
// (untrusted) root with its own intermediate.
type PKI struct {
	Root, Inter       *certs.Certificate
	OtherRoot, OtherI *certs.Certificate
	Store             certs.Store // trusts Root only
}

func must[T any](v T, err error) T {
	if err != nil {
		panic(err)
	}
	return v
}

func newCA(label string) (*certs.Certificate, *certs.Certificate) {
	rk := keys.GenerateNewSigningKeyPair()
	ik := keys.GenerateNewSigningKeyPair()
	root := must(certs.SelfSignRoot(&certs.Identity{PublicKey: rk.Public, Names: []certs.Name{certs.RawStringName(label + " root")}}, rk))
	root.ProvideKey((*[32]byte)(&rk.Private))
	inter := must(certs.IssueIntermediate(root, &certs.Identity{PublicKey: ik.Public, Names: []certs.Name{certs.RawStringName(label + " inter")}}))
	inter.ProvideKey((*[32]byte)(&ik.Private))
	return root, inter
}

func NewPKI() *PKI {
	p := &PKI{}
	p.Root, p.Inter = newCA("trusted")
	p.OtherRoot, p.OtherI = newCA("other")
	p.Store = certs.Store{}
	p.Store.AddCertificate(p.Root)
	return p
}

// Leaf issues a leaf for the key under the trusted intermediate.
func (p *PKI) Leaf(pub keys.DHPublicKey, names ...certs.Name) *certs.Certificate {
	return must(certs.IssueLeaf(p.Inter, &certs.Identity{PublicKey: pub, Names: names}))
}

// LeafAt issues a leaf with an explicit validity window.
func (p *PKI) LeafAt(pub keys.DHPublicKey, at time.Time, validity time.Duration, names ...certs.Name) *certs.Certificate {
	return must(certs.IssueLeafAt(p.Inter, &certs.Identity{PublicKey: pub, Names: names}, at, validity))
}

// OtherLeaf issues a leaf under the untrusted CA.
func (p *PKI) OtherLeaf(pub keys.DHPublicKey, names ...certs.Name) *certs.Certificate {
	return must(certs.IssueLeaf(p.OtherI, &certs.Identity{PublicKey: pub, Names: names}))
}

func SelfSigned(pub keys.DHPublicKey, names ...certs.Name) *certs.Certificate {
	return must(certs.SelfSignLeaf(&certs.Identity{PublicKey: pub, Names: names}))
}

// ServerID is the server's long-term identity.
type ServerID struct {
	Key   *keys.X25519KeyPair
	KEM   *keys.KEMKeyPair
	Leaf  *certs.Certificate
	Inter *certs.Certificate
}

const ServerName = "testing"

func (p *PKI) NewServerID() *ServerID {
	k := keys.GenerateNewX25519KeyPair()
	kem := must(keys.GenerateKEMKeyPair(rand.Reader))
	return &ServerID{Key: k, KEM: kem, Leaf: p.Leaf(k.Public, certs.RawStringName(ServerName)), Inter: p.Inter}
}

// ClientPolicy is one of the four server-side client-verification policies.
type ClientPolicy int

const (
	PolicySkip ClientPolicy = iota
	PolicyStore
	PolicyAuthKeys
	PolicyBoth
)

func (p *PKI) ClientVerify(pol ClientPolicy, authorized ...keys.DHPublicKey) *transport.VerifyConfig {
	v := &transport.VerifyConfig{}
	switch pol {
	case PolicySkip:
		v.InsecureSkipVerify = true
	case PolicyStore:
		v.Store = p.Store
	case PolicyAuthKeys:
		// authorized keys only: the (empty) store rejects everything else
		v.Store = certs.Store{}
		v.AuthKeysAllowed = true
	case PolicyBoth:
		v.Store = p.Store
		v.AuthKeysAllowed = true
	}
	v.AuthKeys = authkeys.NewSyncAuthKeySet()
	for _, k := range authorized {
		v.AuthKeys.AddKey(k)
	}
	return v
}

// Addr makes the i-th address of the pool:
//
//	0..99     10.0.0.i : 4000+i
//	100..199  the IP of i-100, another port (5000+i)        — differs from i-100 in the port only
//	200..299  10.1.0.(i-200) : 4000+(i-200)                 — differs from i-200 in the IP only
//	300..399  2001:db8::(i-300) : 4000+(i-300)              — IPv6
//	400..499  2001:db8:1::(i-400) : 4000+(i-400)            — IPv6, differs from i-100 in the IP only
//	500..599  fe80::(i-500)%eth0 : 4000+(i-500)             — link-local IPv6 with a zone
//	600..699  fe80::(i-600)%eth1 : 4000+(i-600)             — differs from i-100 in the zone only
func Addr(i int) *net.UDPAddr {
	switch {
	case i < 100:
		return &net.UDPAddr{IP: net.IPv4(10, 0, 0, byte(i)), Port: 4000 + i}
	case i < 200:
		return &net.UDPAddr{IP: net.IPv4(10, 0, 0, byte(i-100)), Port: 5000 + i}
	case i < 300:
		return &net.UDPAddr{IP: net.IPv4(10, 1, 0, byte(i-200)), Port: 4000 + (i - 200)}
	case i < 400:
		ip := net.ParseIP("2001:db8::")
		ip[15] = byte(i - 300)
		return &net.UDPAddr{IP: ip, Port: 4000 + (i - 300)}
	case i < 500:
		ip := net.ParseIP("2001:db8:1::")
		ip[15] = byte(i - 400)
		return &net.UDPAddr{IP: ip, Port: 4000 + (i - 400)}
	case i < 600:
		// link-local with a zone
		ip := net.ParseIP("fe80::")
		ip[15] = byte(i - 500)
		return &net.UDPAddr{IP: ip, Port: 4000 + (i - 500), Zone: "eth0"}
	default:
		// the same link-local address on another interface: differs from i-100 in the zone only
		ip := net.ParseIP("fe80::")
		ip[15] = byte(i - 600)
		return &net.UDPAddr{IP: ip, Port: 4000 + (i - 600), Zone: "eth1"}
	}
}

var ServerAddr = &net.UDPAddr{IP: net.IPv4(10, 9, 9, 9), Port: 77}

// Srv is a real transport.Server on an in-memory Conn, served by its own goroutines.
type Srv struct {
	Conn   *Conn
	S      *transport.Server
	served chan struct{}
}

func NewSrv(cfg transport.ServerConfig) *Srv {
	if cfg.HandshakeTimeout == 0 {
		cfg.HandshakeTimeout = time.Hour // no timer-driven state changes during a run
	}
	c := NewConn(ServerAddr)
	s, err := transport.NewServer(c, cfg)
	if err != nil {
		panic(err)
	}
	sv := &Srv{Conn: c, S: s, served: make(chan struct{})}
	go func() {
		defer close(sv.served)
		s.Serve()
	}()
	if !c.WaitReads(0, nil, Watchdog) {
		panic("tnet: server did not start reading")
	}
	return sv
}

// Deliver gives the server one datagram claiming to come from src and waits for it to be
// processed. The result is "ok" or "stuck".
func (sv *Srv) Deliver(data []byte, src *net.UDPAddr) string {
	if sv.Conn.Deliver(Dgram{Src: src, Dst: ServerAddr, Data: data}, sv.served, Watchdog) {
		return "ok"
	}
	select {
	case <-sv.served:
		return "dead"
	default:
		return "stuck"
	}
}

func (sv *Srv) Close() {
	done := make(chan struct{})
	go func() { sv.S.Close(); close(done) }()
	select {
	case <-done:
	case <-time.After(Watchdog):
	}
}

// Cli is a real transport.Client on an in-memory Conn.
type Cli struct {
	Conn   *Conn
	C      *transport.Client
	HSDone chan struct{}
	HSErr  error
	Local  *net.UDPAddr
	// CertKey is the public key named in the certificate the client presents
	CertKey keys.DHPublicKey
}

func NewCli(local *net.UDPAddr, cfg transport.ClientConfig) *Cli {
	c := NewConn(local)
	cl := transport.NewClient(c, ServerAddr, cfg)
	return &Cli{Conn: c, C: cl, HSDone: make(chan struct{}), Local: local}
}

// Start launches Handshake in the background and waits until the client has sent its first
// message and is waiting for the answer (or has already failed).
func (cl *Cli) Start() {
	go func() {
		defer func() {
			if e := recover(); e != nil {
				cl.HSErr = fmt.Errorf("panic: %v", e)
			}
			close(cl.HSDone)
		}()
		cl.HSErr = cl.C.Handshake()
	}()
	cl.Conn.WaitReads(0, cl.HSDone, Watchdog)
}

// Deliver gives the client one datagram and waits until it is processed: the client is back in
// ReadMsgUDP (next handshake step, or the session's listen loop) or Handshake has returned.
func (cl *Cli) Deliver(data []byte, src *net.UDPAddr) string {
	hsWasDone := cl.Finished()
	var stop <-chan struct{}
	if !hsWasDone {
		stop = cl.HSDone
	}
	prev := cl.Conn.Reads()
	_ = prev
	if cl.Conn.Deliver(Dgram{Src: src, Dst: cl.Local, Data: data}, stop, Watchdog) {
		// The client is reading again.  If that is the session's listen loop (the handshake
		// succeeded), Handshake is about to return: wait for it, so that callers never see a
		// completed handshake as unfinished.
		if !hsWasDone && cl.C.VerifState() == transport.VerifClientStateOpen {
			select {
			case <-cl.HSDone:
			case <-time.After(Watchdog):
				return "stuck"
			}
		}
		return "ok"
	}
	if !hsWasDone && cl.Finished() {
		// the handshake returned; on success the listen loop starts reading shortly after
		if cl.HSErr == nil {
			cl.Conn.WaitReads(prev, nil, Watchdog)
		}
		return "ok"
	}
	return "stuck"
}

func (cl *Cli) Finished() bool {
	select {
	case <-cl.HSDone:
		return true
	default:
		return false
	}
}

func (cl *Cli) Close() {
	done := make(chan struct{})
	go func() { cl.C.Close(); close(done) }()
	select {
	case <-done:
	case <-time.After(Watchdog):
	}
}

// CertNeedles returns byte strings that must never appear on the wire in clear: the public keys
// and signatures inside the shared server and CA certificates.
func CertNeedles() [][]byte {
	p, id := sharedPKI()
	var out [][]byte
	for _, c := range []*certs.Certificate{id.Leaf, p.Inter} {
		out = append(out, append([]byte(nil), c.PublicKey[:]...))
		out = append(out, append([]byte(nil), c.Signature[:16]...))
	}
	return out
}
