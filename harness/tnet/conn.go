// Package tnet is an in-memory datagram network for driving real transport endpoints
// synchronously: the harness hands an endpoint one datagram and the endpoint's next ReadMsgUDP
// call is the completion barrier, so runs are deterministic. Everything an endpoint writes is
// captured; the harness (the adversary) decides what is delivered to whom, from which source
// address, and in what shape.
package tnet

import (
	"errors"
	"net"
	"os"
	"sync"
	"time"
)

// Dgram is one captured datagram.
type Dgram struct {
	Src, Dst *net.UDPAddr
	Data     []byte
}

// Conn implements transport.UDPLike.
type Conn struct {
	local *net.UDPAddr

	mu     sync.Mutex
	cond   *sync.Cond
	reads  int // number of ReadMsgUDP entries so far
	out    []Dgram
	closed bool

	in      chan Dgram
	closeCh chan struct{}

	// read deadline (as net.UDPConn: a read fails with os.ErrDeadlineExceeded once it has passed;
	// setting it wakes a blocked read so that it sees the new value)
	rdl   time.Time
	rdlCh chan struct{}
}

var ErrClosed = errors.New("tnet: use of closed connection")

func NewConn(local *net.UDPAddr) *Conn {
	c := &Conn{local: local, in: make(chan Dgram), closeCh: make(chan struct{}), rdlCh: make(chan struct{})}
	c.cond = sync.NewCond(&c.mu)
	return c
}

func (c *Conn) ReadMsgUDP(b, oob []byte) (n, oobn, flags int, addr *net.UDPAddr, err error) {
	c.mu.Lock()
	c.reads++
	c.cond.Broadcast()
	c.mu.Unlock()
	for {
		c.mu.Lock()
		dl, changed := c.rdl, c.rdlCh
		c.mu.Unlock()
		var expired <-chan time.Time
		var tm *time.Timer
		if !dl.IsZero() {
			d := time.Until(dl)
			if d <= 0 {
				// like a socket whose deadline has passed; the pause keeps a caller that retries in a
				// loop from spinning at full speed
				time.Sleep(200 * time.Microsecond)
				return 0, 0, 0, nil, os.ErrDeadlineExceeded
			}
			tm = time.NewTimer(d)
			expired = tm.C
		}
		select {
		case d := <-c.in:
			if tm != nil {
				tm.Stop()
			}
			n = copy(b, d.Data)
			return n, 0, 0, d.Src, nil
		case <-c.closeCh:
			if tm != nil {
				tm.Stop()
			}
			return 0, 0, 0, nil, ErrClosed
		case <-expired:
			return 0, 0, 0, nil, os.ErrDeadlineExceeded
		case <-changed:
			if tm != nil {
				tm.Stop()
			}
		}
	}
}

func (c *Conn) WriteMsgUDP(b, oob []byte, addr *net.UDPAddr) (n, oobn int, err error) {
	c.mu.Lock()
	defer c.mu.Unlock()
	if c.closed {
		return 0, 0, ErrClosed
	}
	c.out = append(c.out, Dgram{Src: c.local, Dst: addr, Data: append([]byte(nil), b...)})
	c.cond.Broadcast()
	return len(b), 0, nil
}

func (c *Conn) Read(b []byte) (int, error) {
	n, _, _, _, err := c.ReadMsgUDP(b, nil)
	return n, err
}

func (c *Conn) Write(b []byte) (int, error) {
	n, _, err := c.WriteMsgUDP(b, nil, nil)
	return n, err
}

func (c *Conn) Close() error {
	c.mu.Lock()
	defer c.mu.Unlock()
	if !c.closed {
		c.closed = true
		close(c.closeCh)
		c.cond.Broadcast()
	}
	return nil
}

func (c *Conn) LocalAddr() net.Addr                { return c.local }
func (c *Conn) RemoteAddr() net.Addr               { return nil }
func (c *Conn) SetDeadline(t time.Time) error      { return c.SetReadDeadline(t) }
func (c *Conn) SetWriteDeadline(t time.Time) error { return nil }
func (c *Conn) SetReadDeadline(t time.Time) error {
	c.mu.Lock()
	c.rdl = t
	close(c.rdlCh)
	c.rdlCh = make(chan struct{})
	c.mu.Unlock()
	return nil
}

// Reads returns how many times the endpoint has entered ReadMsgUDP.
func (c *Conn) Reads() int {
	c.mu.Lock()
	defer c.mu.Unlock()
	return c.reads
}

// WaitReads blocks until the endpoint has entered ReadMsgUDP more than `prev` times, until stop
// is closed, or until the watchdog expires. It reports whether the endpoint is idle again.
func (c *Conn) WaitReads(prev int, stop <-chan struct{}, watchdog time.Duration) bool {
	done := make(chan bool, 1)
	go func() {
		c.mu.Lock()
		for c.reads <= prev && !c.closed {
			c.cond.Wait()
		}
		ok := c.reads > prev
		c.mu.Unlock()
		done <- ok
	}()
	t := time.NewTimer(watchdog)
	defer t.Stop()
	select {
	case ok := <-done:
		return ok
	case <-stop:
		return false
	case <-t.C:
		// wake the waiter so that it does not leak forever
		c.mu.Lock()
		c.cond.Broadcast()
		c.mu.Unlock()
		return false
	}
}

// Deliver hands one datagram to the endpoint and waits until it has been fully processed (the
// endpoint is back in ReadMsgUDP), or stop is closed. Returns false when the endpoint did not
// take the datagram or did not come back within the watchdog.
func (c *Conn) Deliver(d Dgram, stop <-chan struct{}, watchdog time.Duration) bool {
	// the endpoint must be sitting in ReadMsgUDP
	prev := c.Reads()
	t := time.NewTimer(watchdog)
	defer t.Stop()
	select {
	case c.in <- d:
	case <-stop:
		return false
	case <-c.closeCh:
		return false
	case <-t.C:
		return false
	}
	return c.WaitReads(prev, stop, watchdog)
}

// Drain returns and forgets everything written so far.
func (c *Conn) Drain() []Dgram {
	c.mu.Lock()
	defer c.mu.Unlock()
	o := c.out
	c.out = nil
	return o
}
