package tnet

import (
	"bytes"
	"encoding/binary"
	"fmt"
	"io"
	"net"
	"strconv"
	"strings"
	"sync"
	"time"

	"hop.computer/hop/certs"
	"hop.computer/hop/keys"
	"hop.computer/hop/transport"
)

// SessionWorld is n established sessions between one real server and n real clients, driven one
// datagram at a time.  It executes the operation lines of the C03/C15 protocol (see
// lean/HopModel/HopModel/Driver/C03.lean).
type SessionWorld struct {
	N       int
	Srv     *Srv
	Cli     []*Cli
	Handles []*transport.Handle
	SIDs    []transport.SessionID
	pkts    map[string][]byte
	line    int
	streams map[uint64][]byte
	// Wire collects every datagram ever emitted (for the confidentiality scan)
	Wire [][]byte
	// acks[i]: the genuine ClientAck of client i's handshake (op hsdup delivers it once more)
	acks [][]byte
	// lastDeadline: the latest handshake deadline any client was dialled with
	lastDeadline time.Time
}

// HSTimeout is the server's handshake timeout in a SessionWorld: short, so that the timers armed
// by the handshakes fire during a case (they must find nothing to do: the handshakes completed).
const HSTimeout = 400 * time.Millisecond

const maxStream = 3*transport.MaxPlaintextSize + 64

var pki *PKI
var srvID *ServerID

func sharedPKI() (*PKI, *ServerID) {
	if pki == nil {
		pki = NewPKI()
		srvID = pki.NewServerID()
	}
	return pki, srvID
}

// Stream is the deterministic byte stream of a seed.
func Stream(seed uint64, n int) []byte {
	b := make([]byte, n)
	x := seed*0x9E3779B97F4A7C15 + 0xDEADBEEFCAFEF00D
	for i := 0; i < n; i += 8 {
		x ^= x << 13
		x ^= x >> 7
		x ^= x << 17
		var w [8]byte
		binary.LittleEndian.PutUint64(w[:], x)
		copy(b[i:], w[:])
	}
	return b
}

func (w *SessionWorld) stream(seed uint64) []byte {
	if s, ok := w.streams[seed]; ok {
		return s
	}
	s := Stream(seed, maxStream)
	w.streams[seed] = s
	return s
}

func (w *SessionWorld) Close() {
	if w == nil || w.Srv == nil {
		return
	}
	for _, c := range w.Cli {
		c.Close()
	}
	w.Srv.Close()
}

// NewSessionWorld performs n honest discoverable handshakes.
// HSDeadlineIn: in a timer world every client is dialled with an absolute handshake deadline this
// far ahead (and no relative timeout), as net.Dialer.Deadline gives it; `hswait` sleeps past it.
const HSDeadlineIn = 3 * time.Second

func NewSessionWorld(n, capacity int, timers bool) (*SessionWorld, error) {
	p, id := sharedPKI()
	w := &SessionWorld{N: n, pkts: map[string][]byte{}, streams: map[uint64][]byte{}}
	w.Srv = NewSrv(transport.ServerConfig{
		KeyPair: id.Key, KEMKeyPair: id.KEM, Certificate: id.Leaf, Intermediate: id.Inter,
		ClientVerify:                    p.ClientVerify(PolicyStore),
		MaxBufferedPacketsPerConnection: capacity, MaxPendingConnections: 16,
		HandshakeTimeout: HSTimeout,
	})
	for i := 0; i < n; i++ {
		k := keys.GenerateNewX25519KeyPair()
		cfg := transport.ClientConfig{
			Exchanger: k, Leaf: p.Leaf(k.Public, certs.RawStringName("client")), Intermediate: p.Inter,
			Verify:             transport.VerifyConfig{Store: p.Store, Name: certs.RawStringName(ServerName)},
			MaxBufferedPackets: capacity,
		}
		if timers {
			cfg.HSDeadline = time.Now().Add(HSDeadlineIn)
			w.lastDeadline = cfg.HSDeadline
		}
		cl := NewCli(Addr(i), cfg)
		all := Pump(w.Srv, cl, Addr(i), nil)
		var ack []byte
		for _, d := range all {
			w.Wire = append(w.Wire, d.Data)
			if len(d.Data) > 0 && d.Data[0] == byte(transport.MessageTypeClientAck) {
				ack = d.Data
			}
		}
		w.acks = append(w.acks, ack)
		if !cl.Finished() || cl.HSErr != nil {
			return w, fmt.Errorf("honest handshake %d failed: %v", i, cl.HSErr)
		}
		h, err := w.Srv.S.AcceptTimeout(5 * time.Second)
		if err != nil {
			return w, fmt.Errorf("accept %d: %v", i, err)
		}
		w.Cli = append(w.Cli, cl)
		w.Handles = append(w.Handles, h)
		w.SIDs = append(w.SIDs, h.VerifSession().SessionID)
	}
	return w, nil
}

type epRef struct {
	srv bool
	i   int
}

func (w *SessionWorld) parseEp(s string) (epRef, bool) {
	if len(s) < 2 {
		return epRef{}, false
	}
	i, err := strconv.Atoi(s[1:])
	if err != nil || i < 0 || i >= w.N {
		return epRef{}, false
	}
	switch s[0] {
	case 'S':
		return epRef{true, i}, true
	case 'C':
		return epRef{false, i}, true
	}
	return epRef{}, false
}

func (w *SessionWorld) msgConn(r epRef) transport.MsgConn {
	if r.srv {
		return w.Handles[r.i]
	}
	return w.Cli[r.i].C
}

func (w *SessionWorld) handle(r epRef) *transport.Handle {
	if r.srv {
		return w.Handles[r.i]
	}
	return w.Cli[r.i].C.VerifHandle()
}

func (w *SessionWorld) conn(r epRef) *Conn {
	if r.srv {
		return w.Srv.Conn
	}
	return w.Cli[r.i].Conn
}

// collect names the datagrams the endpoint emitted during the current operation.
func (w *SessionWorld) collect(r epRef) []Dgram {
	ds := w.conn(r).Drain()
	for k, d := range ds {
		w.pkts[fmt.Sprintf("%d.%d", w.line, k)] = d.Data
		w.Wire = append(w.Wire, d.Data)
	}
	return ds
}

// AddrIndex maps an address back to its index (server = 1000); -1 for an address outside the pool.
// The comparison is the harness's own (IP bytes, port, zone), not transport.EqualUDPAddress.
func AddrIndex(a *net.UDPAddr) int {
	if a == nil {
		return -1
	}
	same := func(b *net.UDPAddr) bool { return a.Port == b.Port && a.Zone == b.Zone && a.IP.Equal(b.IP) }
	if same(ServerAddr) {
		return 1000
	}
	for i := 0; i < 700; i++ {
		if same(Addr(i)) {
			return i
		}
	}
	return -1
}

func (w *SessionWorld) sessionOf(sid []byte) int {
	for j, s := range w.SIDs {
		if bytes.Equal(s[:], sid) {
			return j
		}
	}
	return -1
}

func (w *SessionWorld) mutate(pkt []byte, m string) ([]byte, bool) {
	b := append([]byte(nil), pkt...)
	f := strings.Split(m, ":")
	num := func(s string) (uint64, bool) {
		v, err := strconv.ParseUint(s, 10, 64)
		return v, err == nil
	}
	switch {
	case len(f) == 1 && f[0] == "none":
		return b, true
	case len(f) == 4 && f[0] == "flip":
		off, ok1 := num(f[2])
		mask, ok2 := num(f[3])
		if !ok1 || !ok2 || mask == 0 || mask > 255 {
			return nil, false
		}
		base, size := 0, 0
		switch f[1] {
		case "t":
			base, size = 0, 1
		case "r":
			base, size = 1, 3
		case "s":
			base, size = 4, 4
		case "c":
			base, size = 8, 8
		case "b":
			base, size = 16, len(b)-16
		default:
			return nil, false
		}
		if int(off) >= size {
			return nil, false
		}
		b[base+int(off)] ^= byte(mask)
		return b, true
	case len(f) == 2 && f[0] == "trunc":
		n, ok := num(f[1])
		if !ok || int(n) >= len(b) {
			return nil, false
		}
		return b[:n], true
	case len(f) == 2 && f[0] == "ext":
		n, ok := num(f[1])
		if !ok || n == 0 {
			return nil, false
		}
		return append(b, make([]byte, n)...), true
	case len(f) == 2 && f[0] == "type":
		t, ok := num(f[1])
		if !ok || t > 255 {
			return nil, false
		}
		b[0] = byte(t)
		return b, true
	case len(f) == 2 && f[0] == "sid":
		j, ok := num(f[1])
		if !ok || int(j) >= w.N {
			return nil, false
		}
		copy(b[4:8], w.SIDs[j][:])
		return b, true
	case len(f) == 2 && f[0] == "ctr":
		v, ok := num(f[1])
		if !ok {
			return nil, false
		}
		binary.BigEndian.PutUint64(b[8:16], v)
		return b, true
	}
	return nil, false
}

// deliver routes the datagram and reports the state of the session it names.
func (w *SessionWorld) deliver(to string, from int, data []byte) string {
	var r epRef
	if to == "S" {
		if res := w.Srv.Deliver(data, Addr(from)); res != "ok" {
			return res
		}
		if len(data) < 8 {
			return "none"
		}
		j := w.sessionOf(data[4:8])
		if j < 0 {
			return "none"
		}
		r = epRef{true, j}
	} else {
		var ok bool
		r, ok = w.parseEp(to)
		if !ok || r.srv {
			return "bad-op"
		}
		src := Addr(from)
		if from == 1000 {
			src = ServerAddr
		}
		if res := w.Cli[r.i].Deliver(data, src); res != "ok" {
			return res
		}
	}
	var info *transport.VerifSessionInfo
	if r.srv {
		info = w.Handles[r.i].VerifSession()
	} else {
		info = w.Cli[r.i].C.VerifSession()
	}
	c := 0
	if info.Closed {
		c = 1
	}
	name := "C"
	if r.srv {
		name = "S"
	}
	return fmt.Sprintf("%s%d c=%d r=%d", name, r.i, c, AddrIndex(info.RemoteAddr))
}

func (w *SessionWorld) identify(msg []byte) string {
	if len(msg) < 8 {
		return fmt.Sprintf("d%d", len(msg))
	}
	for seed, s := range w.streams {
		if off := bytes.Index(s, msg); off >= 0 {
			return fmt.Sprintf("d%d@%d+%d", len(msg), seed, off)
		}
	}
	n := len(msg)
	if n > 8 {
		n = 8
	}
	return fmt.Sprintf("unknown:%d:%x", len(msg), msg[:n])
}

// Exec runs one operation line (not `new`).
func (w *SessionWorld) Exec(f []string) string {
	w.line++
	u := func(s string) (uint64, bool) {
		v, err := strconv.ParseUint(s, 10, 64)
		return v, err == nil
	}
	switch {
	case len(f) == 4 && (f[0] == "wr" || f[0] == "write"):
		r, ok := w.parseEp(f[1])
		n, ok2 := u(f[2])
		seed, ok3 := u(f[3])
		if !ok || !ok2 || !ok3 || int(n) > maxStream {
			return "bad-op"
		}
		data := w.stream(seed)[:n]
		if f[0] == "wr" {
			err := w.msgConn(r).WriteMsg(data)
			w.collect(r)
			if err != nil {
				return "err"
			}
			return "ok"
		}
		ret, _ := w.msgConn(r).Write(data)
		ds := w.collect(r)
		return fmt.Sprintf("n=%d k=%d", ret, len(ds))
	case len(f) == 3 && f[0] == "ctl":
		r, ok := w.parseEp(f[1])
		if !ok {
			return "bad-op"
		}
		var body []byte
		if f[2] != "-" {
			for _, x := range strings.Split(f[2], ",") {
				v, ok := u(x)
				if !ok || v > 255 {
					return "bad-op"
				}
				body = append(body, byte(v))
			}
		}
		err := w.handle(r).VerifSendControl(body)
		w.collect(r)
		if err != nil {
			return "err"
		}
		return "ok"
	case len(f) == 5 && f[0] == "dlv":
		from, ok := u(f[2])
		if !ok {
			return "bad-op"
		}
		pkt, ok := w.pkts[f[3]]
		if !ok {
			return "no-such-packet"
		}
		data, ok := w.mutate(pkt, f[4])
		if !ok {
			return "bad-op"
		}
		return w.deliver(f[1], int(from), data)
	case len(f) == 7 && f[0] == "junk":
		from, ok1 := u(f[2])
		n, ok2 := u(f[3])
		mt, ok3 := u(f[4])
		ctr, ok4 := u(f[6])
		if !ok1 || !ok2 || !ok3 || !ok4 || n > 65535 || mt > 255 {
			return "bad-op"
		}
		data := Stream(ctr+n*7+mt, int(n)+8)[:n]
		if n >= 1 {
			data[0] = byte(mt)
		}
		for i := 1; i < 4 && i < int(n); i++ {
			data[i] = 0
		}
		if f[5] != "x" {
			j, ok := u(f[5])
			if !ok || int(j) >= w.N {
				return "bad-op"
			}
			if n >= 8 {
				copy(data[4:8], w.SIDs[j][:])
			}
		} else if n >= 8 && w.sessionOf(data[4:8]) >= 0 {
			data[4] ^= 0xff
		}
		if n >= 16 {
			binary.BigEndian.PutUint64(data[8:16], ctr)
		}
		return w.deliver(f[1], int(from), data)
	case len(f) == 2 && f[0] == "hsdup":
		// the network delivers client i's ClientAck once more, from the address it was sent from: the
		// cookie still opens, so the server starts a second, never completed handshake for that address
		i, ok := u(f[1])
		if !ok || int(i) >= w.N {
			return "bad-op"
		}
		if w.acks[i] == nil {
			return "no-ack-captured"
		}
		r := w.Srv.Deliver(w.acks[i], Addr(int(i)))
		for _, d := range w.Srv.Conn.Drain() { // its ServerAuth goes nowhere
			w.Wire = append(w.Wire, d.Data)
		}
		return r
	case len(f) == 1 && f[0] == "hswait":
		// every handshake timer armed so far fires
		time.Sleep(HSTimeout + 150*time.Millisecond)
		if d := time.Until(w.lastDeadline); d > 0 {
			time.Sleep(d + 50*time.Millisecond) // … and every client's handshake deadline has passed
		}
		return "ok"
	case len(f) == 2 && f[0] == "rd":
		r, ok := w.parseEp(f[1])
		if !ok {
			return "bad-op"
		}
		c := w.msgConn(r)
		buf := make([]byte, 65536)
		var ids []string
		end := "to"
		for k := 0; k < 100000; k++ {
			c.SetReadDeadline(time.Unix(1, 0))
			n, err := c.ReadMsg(buf)
			if err != nil {
				if err == io.EOF {
					end = "eof"
				}
				break
			}
			ids = append(ids, w.identify(buf[:n]))
		}
		if len(ids) == 0 {
			return "- " + end
		}
		return strings.Join(ids, ",") + " " + end
	case len(f) == 2 && f[0] == "probe":
		r, ok := w.parseEp(f[1])
		if !ok {
			return "bad-op"
		}
		err := w.msgConn(r).WriteMsg(w.stream(0)[:1])
		ds := w.collect(r)
		if err != nil || len(ds) != 1 {
			return "err"
		}
		return fmt.Sprintf("dst=%d", AddrIndex(ds[0].Dst))
	case len(f) == 3 && f[0] == "setctr":
		// move this end's send counter (what billions of packets would do)
		r, ok := w.parseEp(f[1])
		n, ok2 := u(f[2])
		if !ok || !ok2 {
			return "bad-op"
		}
		w.handle(r).VerifSetCount(n)
		return "ok"
	case len(f) == 4 && f[0] == "cwr":
		// concurrent writers on one endpoint: every packet gets its own counter, nothing is lost
		r, ok := w.parseEp(f[1])
		nw, ok2 := u(f[2])
		each, ok3 := u(f[3])
		if !ok || !ok2 || !ok3 || nw == 0 || nw > 16 || each == 0 || each > 64 {
			return "bad-op"
		}
		c := w.msgConn(r)
		var wg sync.WaitGroup
		errs := make(chan error, int(nw*each))
		for g := uint64(0); g < nw; g++ {
			wg.Add(1)
			go func(g uint64) {
				defer wg.Done()
				for k := uint64(0); k < each; k++ {
					msg := []byte(fmt.Sprintf("cw-%02d-%02d", g, k))
					if err := c.WriteMsg(msg); err != nil {
						errs <- err
					}
				}
			}(g)
		}
		wg.Wait()
		close(errs)
		ds := w.conn(r).Drain()
		for k, d := range ds {
			w.pkts[fmt.Sprintf("%d.%d", w.line, k)] = d.Data
			w.Wire = append(w.Wire, d.Data)
		}
		if len(errs) > 0 {
			return "err"
		}
		seen := map[uint64]bool{}
		lo, hi := ^uint64(0), uint64(0)
		for _, d := range ds {
			if len(d.Data) < 16 {
				return "short-packet"
			}
			ctr := binary.BigEndian.Uint64(d.Data[8:16])
			if seen[ctr] {
				return "duplicate-counter"
			}
			seen[ctr] = true
			if ctr < lo {
				lo = ctr
			}
			if ctr > hi {
				hi = ctr
			}
		}
		if uint64(len(ds)) != nw*each || hi-lo+1 != nw*each {
			return fmt.Sprintf("packets=%d span=%d", len(ds), hi-lo+1)
		}
		return fmt.Sprintf("ok n=%d", nw*each)
	case len(f) == 2 && f[0] == "close":
		r, ok := w.parseEp(f[1])
		if !ok {
			return "bad-op"
		}
		w.handle(r).Close()
		return "ok"
	}
	return "bad-op"
}
