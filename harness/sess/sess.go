package sess

import (
	"bufio"
	"bytes"
	"fmt"
	"strconv"
	"strings"

	"hop.computer/hop/transport"
	. "hopverif/hvlib"
	"hopverif/tnet"
)

// C03 / C15 — established sessions under a datagram-level adversary.  Real client and server
// endpoints are driven one datagram at a time over the in-memory network; see
// lean/HopModel/HopModel/Driver/C03.lean for the operation lines.

// New returns the session suite with the given generator profile ("mixed" or "roam").
func New(profile string) *Suite {
	return &Suite{Gen: func(g *GenCtx) { gen(g, profile) }, Run: run}
}

type pktInfo struct {
	ref   string
	sess  int
	fromS bool // emitted by the server side
	size  int
}

type caseGen struct {
	g      *GenCtx
	n      int
	line   int
	pkts   []pktInfo
	addrOf []int // current address of client i (roaming)
	roam   bool  // profile: mostly address changes, forged and replayed copies from other addresses, probes
}

func (c *caseGen) op(format string, a ...any) int {
	c.line++
	c.g.Op(format, a...)
	return c.line
}

func (c *caseGen) ep() (string, int, bool) {
	i := c.g.R.Intn(c.n)
	if c.g.R.Chance(1, 2) {
		return fmt.Sprintf("S%d", i), i, true
	}
	return fmt.Sprintf("C%d", i), i, false
}

func (c *caseGen) write(size int) {
	ep, i, srv := c.ep()
	l := c.op("wr %s %d %d", ep, size, 1+c.g.R.Intn(5))
	c.pkts = append(c.pkts, pktInfo{fmt.Sprintf("%d.0", l), i, srv, size})
}

// honest destination and source of a packet
func (c *caseGen) honest(p pktInfo) (string, int) {
	if p.fromS {
		return fmt.Sprintf("C%d", p.sess), 1000
	}
	return "S", c.addrOf[p.sess]
}

var sizes = []int{0, 1, 7, 8, 9, 100, 1000}

func (c *caseGen) step() {
	r := c.g.R
	max := transport.MaxPlaintextSize
	k := r.Intn(100)
	if c.roam && len(c.pkts) > 0 {
		// remap: 30% roam, 25% forged/mutated from elsewhere, 10% replay from elsewhere, 15% probe,
		// 12% write, 8% honest delivery
		switch j := r.Intn(100); {
		case j < 30:
			k = 40
		case j < 55:
			k = 46
		case j < 65:
			k = 64
		case j < 80:
			k = 88
		case j < 92:
			k = 0
		default:
			k = 22
		}
	}
	switch {
	case k < 22 || len(c.pkts) == 0:
		c.write(Pick(r, sizes))
	case k < 40: // honest delivery of the newest or a random pending packet
		p := c.pkts[len(c.pkts)-1]
		if r.Chance(1, 3) {
			p = Pick(r, c.pkts)
		}
		to, from := c.honest(p)
		c.op("dlv %s %d %s none", to, from, p.ref)
	case k < 46: // the client roams: genuine packet from a new address
		var cand []pktInfo
		for _, p := range c.pkts {
			if !p.fromS {
				cand = append(cand, p)
			}
		}
		if len(cand) == 0 {
			c.write(10)
			return
		}
		p := cand[len(cand)-1]
		if r.Chance(1, 4) {
			p = Pick(r, cand)
		}
		na := 10 + r.Intn(6)
		switch r.Intn(8) {
		case 6: // to a link-local IPv6 address with a zone
			na = 500 + c.addrOf[p.sess]%100
		case 7: // the same link-local address on another interface (from 500+j: only the zone changes)
			na = 600 + c.addrOf[p.sess]%100
		case 0: // only the port changes
			na = 100 + c.addrOf[p.sess]%100
		case 1: // only the IP changes
			na = 200 + c.addrOf[p.sess]%100
		case 2: // to an IPv6 address with the same port
			na = 300 + c.addrOf[p.sess]%100
		case 3: // to another IPv6 address with the same port (from 300+j: only the IP changes)
			na = 400 + c.addrOf[p.sess]%100
		}
		c.op("dlv S %d %s none", na, p.ref)
		// only an accepted packet moves the session; the generator does not need to know
		if r.Chance(1, 2) {
			c.addrOf[p.sess] = na
		}
	case k < 64: // mutated copy, usually from another address
		p := Pick(r, c.pkts)
		to, from := c.honest(p)
		if r.Chance(3, 4) {
			from = 20 + r.Intn(4)
		}
		var m string
		switch r.Intn(10) {
		case 0:
			m = fmt.Sprintf("flip:t:0:%d", 1+r.Intn(255))
		case 1:
			m = fmt.Sprintf("flip:r:%d:%d", r.Intn(3), 1+r.Intn(255))
		case 2:
			m = fmt.Sprintf("flip:s:%d:%d", r.Intn(4), 1+r.Intn(255))
		case 3:
			m = fmt.Sprintf("flip:c:%d:%d", r.Intn(8), 1<<r.Intn(8))
		case 4, 5:
			m = fmt.Sprintf("flip:b:%d:%d", r.Intn(p.size+32), 1<<r.Intn(8))
		case 6:
			cut := []int{0, 1, 3, 4, 7, 8, 9, 15, 16, 17, 35, 36, 47, 48, 49, p.size + 47, p.size + 16}
			n := Pick(r, cut)
			if n >= p.size+48 {
				n = p.size + 47
			}
			m = fmt.Sprintf("trunc:%d", n)
		case 7:
			m = fmt.Sprintf("ext:%d", 1+r.Intn(40))
		case 8:
			m = fmt.Sprintf("type:%d", Pick(r, []int{0, 1, 3, 5, 8, 16, 17, 128, 129, 255}))
		default:
			m = fmt.Sprintf("ctr:%d", r.Intn(2000))
		}
		c.op("dlv %s %d %s %s", to, from, p.ref, m)
	case k < 70: // replay (possibly from elsewhere)
		p := Pick(r, c.pkts)
		to, from := c.honest(p)
		if r.Chance(1, 2) {
			from = 30 + r.Intn(3)
		}
		c.op("dlv %s %d %s none", to, from, p.ref)
	case k < 76: // cross-session / cross-direction / reflection
		p := Pick(r, c.pkts)
		switch r.Intn(3) {
		case 0:
			to, _ := c.honest(p)
			c.op("dlv %s %d %s sid:%d", to, 40, p.ref, r.Intn(c.n))
		case 1: // reflect to the sender's side
			if p.fromS {
				c.op("dlv S %d %s none", 41, p.ref)
			} else {
				c.op("dlv C%d %d %s none", p.sess, 1000, p.ref)
			}
		default: // to another client
			c.op("dlv C%d %d %s none", r.Intn(c.n), 42, p.ref)
		}
	case k < 82: // made-up datagrams, incl. header copies of live sessions with short bodies
		to := "S"
		if r.Chance(1, 3) {
			to = fmt.Sprintf("C%d", r.Intn(c.n))
		}
		sess := "x"
		if r.Chance(3, 4) {
			sess = strconv.Itoa(r.Intn(c.n))
		}
		c.op("junk %s %d %d %d %s %d", to, 50+r.Intn(3), Pick(r, []int{0, 3, 4, 7, 8, 12, 16, 35, 36, 47, 48, 49, 64, 200}),
			Pick(r, []int{16, 128, 16, 128, 0x11, 0x90, 0}), sess, r.Intn(600))
	case k < 88:
		ep, _, _ := c.ep()
		c.op("rd %s", ep)
	case k < 93:
		ep, _, _ := c.ep()
		c.op("probe %s", ep)
		// the probe is a packet too
		c.pkts = append(c.pkts, pktInfo{fmt.Sprintf("%d.0", c.line), atoi(ep[1:]), ep[0] == 'S', 1})
	case k < 95: // stream write across packet boundaries
		ep, i, srv := c.ep()
		size := Pick(r, []int{max - 1, max, max + 1, 2 * max, 2*max + 1, 3*max + 7})
		l := c.op("write %s %d %d", ep, size, 6+r.Intn(3))
		for k, rem := 0, size; rem > 0 || k == 0; k++ {
			n := rem
			if n > max {
				n = max
			}
			c.pkts = append(c.pkts, pktInfo{fmt.Sprintf("%d.%d", l, k), i, srv, n})
			rem -= n
		}
	case k < 97: // control messages
		ep, i, srv := c.ep()
		body := Pick(r, []string{"1", "1", "2", "-", "1,1", "0"})
		l := c.op("ctl %s %s", ep, body)
		c.pkts = append(c.pkts, pktInfo{fmt.Sprintf("%d.0", l), i, srv, len(strings.Split(body, ","))})
	case k < 98:
		ep, _, _ := c.ep()
		if r.Chance(1, 2) {
			c.op("cwr %s %d %d", ep, 2+r.Intn(5), 1+r.Intn(8))
			return
		}
		c.op("close %s", ep)
	case k < 99:
		// the counter crosses a byte boundary of its big-endian encoding (2^8k) or sits near 2^63
		ep, i, srv := c.ep()
		base := uint64(1) << (8 * uint(1+r.Intn(7)))
		if r.Chance(1, 6) {
			base = (uint64(1) << 63) - 600
		}
		c.op("setctr %s %d", ep, base-uint64(1+r.Intn(3)))
		for j := 0; j < 5; j++ {
			l := c.op("wr %s %d %d", ep, 8, 1+r.Intn(5))
			c.pkts = append(c.pkts, pktInfo{fmt.Sprintf("%d.0", l), i, srv, 8})
			p := c.pkts[len(c.pkts)-1]
			to, from := c.honest(p)
			c.op("dlv %s %d %s none", to, from, p.ref)
		}
		c.op("rd %s", map[bool]string{true: fmt.Sprintf("C%d", i), false: fmt.Sprintf("S%d", i)}[srv])
	default: // burst: push the counter far ahead, deliver only the last
		ep, i, srv := c.ep()
		nb := Pick(r, []int{60, 70, 130, 450, 520})
		var last int
		for j := 0; j < nb; j++ {
			last = c.op("wr %s %d %d", ep, 8, 1+r.Intn(5))
			if j%61 == 0 || j == nb-1 || j == nb-449 || j == nb-450 {
				c.pkts = append(c.pkts, pktInfo{fmt.Sprintf("%d.0", last), i, srv, 8})
			}
		}
		p := c.pkts[len(c.pkts)-1]
		to, from := c.honest(p)
		c.op("dlv %s %d %s none", to, from, p.ref)
	}
}

func atoi(s string) int { v, _ := strconv.Atoi(s); return v }

func gen(g *GenCtx, profile string) {
	cases, steps := 120, 40
	if g.Thorough() {
		cases, steps = 4000/g.Parts, 120
	}
	if g.Part == 0 {
		// fixed case: every block of a packet's body is covered by its tag — payload lengths around multiples
		// of the 200-byte block of the packet cipher, one bit changed in the first, a middle, the last block,
		// the last payload byte and the tag; then the genuine packet
		c := &caseGen{g: g, n: 1, addrOf: []int{0}}
		g.Op("new 1 50")
		for _, size := range []int{199, 200, 201, 400, 600, 1000, 1200, 4000} {
			l := c.op("wr C0 %d 3", size)
			ref := fmt.Sprintf("%d.0", l)
			for _, off := range []int{0, size / 2, size - 200, size - 1, size, size + 31} {
				if off >= 0 {
					c.op("dlv S 0 %s flip:b:%d:%d", ref, off, 1<<uint(off%8))
				}
			}
			c.op("dlv S 0 %s none", ref)
			c.op("rd S0")
		}
	}
	if g.Part == 1%g.Parts {
		// fixed case: recorded genuine packets replayed from another address at every depth of the replay
		// window (newest, block edges, the oldest block that is still inside the window, just outside) — none
		// may be accepted or move the session; a fresh genuine packet from a new address still does
		c := &caseGen{g: g, n: 1, addrOf: []int{0}}
		g.Op("new 1 50")
		var refs []string
		for i := 0; i < 470; i++ {
			l := c.op("wr C0 4 1")
			refs = append(refs, fmt.Sprintf("%d.0", l))
			c.op("dlv S 0 %s none", refs[i])
			if i%20 == 19 {
				c.op("rd S0")
			}
		}
		c.op("rd S0")
		for _, age := range []int{0, 1, 2, 62, 63, 64, 65, 127, 128, 129, 383, 384, 385, 386, 400, 407, 415, 430, 446, 447, 448, 449, 450, 460, 469} {
			c.op("dlv S 13 %s none", refs[len(refs)-1-age])
			c.op("probe S0")
		}
		l := c.op("wr C0 4 1")
		c.op("dlv S 14 %d.0 none", l)
		c.op("probe S0")
		c.op("rd S0")
		c.op("scan")
	}
	for ci := 0; ci < cases; ci++ {
		n := 1 + g.R.Intn(3)
		c := &caseGen{g: g, n: n, roam: profile == "roam"}
		for i := 0; i < n; i++ {
			c.addrOf = append(c.addrOf, i)
		}
		// a few cases (`new … t`): a ClientAck is delivered a second time right after the handshakes,
		// the handshake timers fire while that second handshake is pending, and the clients were
		// dialled with an absolute handshake deadline that passes during the case
		timers := ci < 2 || (g.Thorough() && g.R.Chance(1, 40))
		if timers {
			g.Op("new %d %d t", n, Pick(g.R, []int{2, 3, 5, 50}))
		} else {
			g.Op("new %d %d", n, Pick(g.R, []int{2, 3, 5, 50}))
		}
		if timers {
			for i := 0; i < n; i++ {
				if i == 0 || g.R.Chance(1, 2) {
					c.op("hsdup %d", i)
				}
			}
		}
		for s := 0; s < steps; s++ {
			if timers && s == 4 {
				c.op("hswait")
			}
			c.step()
		}
		// final drain and probes: everything the property speaks about becomes visible
		for i := 0; i < n; i++ {
			c.op("rd S%d", i)
			c.op("rd C%d", i)
			c.op("probe S%d", i)
			c.op("probe C%d", i)
		}
		c.op("scan")
	}
}

func run(in *bufio.Scanner, out *bufio.Writer) {
	var w *tnet.SessionWorld
	defer func() { w.Close() }()
	for in.Scan() {
		f := strings.Fields(in.Text())
		res := "bad-op"
		switch {
		case (len(f) == 3 || len(f) == 4 && f[3] == "t") && f[0] == "new":
			n, e1 := strconv.Atoi(f[1])
			capacity, e2 := strconv.Atoi(f[2])
			if e1 != nil || e2 != nil || n < 1 || n > 8 || capacity < 1 {
				break
			}
			w.Close()
			var err error
			w, err = tnet.NewSessionWorld(n, capacity, len(f) == 4)
			if err != nil {
				res = "setup-failed"
			} else {
				res = "ok"
			}
		case len(f) == 1 && f[0] == "scan" && w != nil:
			// confidentiality: no datagram on the wire contains generated application data, the
			// server name label or a raw certificate
			res = Guard(func() string { return scan(w) })
		case w != nil:
			res = Guard(func() string { return w.Exec(f) })
		}
		out.WriteString(res)
		out.WriteByte('\n')
		out.Flush()
	}
}

func scan(w *tnet.SessionWorld) string {
	var needles [][]byte
	for s := uint64(1); s <= 8; s++ {
		needles = append(needles, tnet.Stream(s, 16)[:16])
	}
	needles = append(needles, []byte(tnet.ServerName))
	needles = append(needles, tnet.CertNeedles()...)
	for _, d := range w.Wire {
		for _, n := range needles {
			if bytes.Contains(d, n) {
				return "leak"
			}
		}
	}
	return "clean"
}
