// Package muxh is the shared Go side of the muxer-level suites (C09, C11): a real tubes.Muxer on
// a scripted MsgConn that the harness feeds datagram by datagram, an interpreter for the
// operation language of Driver/Mux.lean, and a pool of child processes so that a panic in a
// muxer goroutine (which nothing can recover) becomes the observable `panic` of one operation.
package muxh

import (
	"bufio"
	"bytes"
	"errors"
	"fmt"
	"io"
	"net"
	"os"
	"os/exec"
	"runtime"
	"sort"
	"strconv"
	"strings"
	"sync"
	"sync/atomic"
	"time"

	"github.com/sirupsen/logrus"

	"hop.computer/hop/transport"
	"hop.computer/hop/tubes"
	. "hopverif/hvlib"
)

// Watchdogs are generous: they only distinguish "returns" from "never returns".
var (
	FeedWatchdog = 10 * time.Second
	StopWatchdog = 30 * time.Second
	ReapWatchdog = 20 * time.Second
	SendWatchdog = 10 * time.Second
)

// ---------------------------------------------------------------- scripted connection

type addr string

func (a addr) Network() string { return "script" }
func (a addr) String() string  { return string(a) }

// ScriptConn is a transport.MsgConn whose incoming datagrams are supplied by the harness.
type ScriptConn struct {
	in     chan []byte
	reads  atomic.Int64 // ReadMsg calls begun
	fed    int64        // datagrams handed over
	mu     sync.Mutex
	out    [][]byte
	closed chan struct{}
	once   sync.Once
	// a message that did not fit the reader's buffer (read by the one receiver goroutine only)
	pending []byte
}

func NewScriptConn() *ScriptConn {
	return &ScriptConn{in: make(chan []byte), closed: make(chan struct{})}
}

// ReadMsg behaves like transport.Handle.ReadMsg: a message that does not fit the buffer is kept for the next
// call and ErrBufOverflow is returned (the muxer's buffer must hold the largest message a peer can send).
func (c *ScriptConn) ReadMsg(b []byte) (int, error) {
	c.reads.Add(1)
	if m := c.pending; m != nil {
		if len(b) < len(m) {
			return 0, transport.ErrBufOverflow
		}
		c.pending = nil
		return copy(b, m), nil
	}
	select {
	case m := <-c.in:
		if len(b) < len(m) {
			c.pending = m
			return 0, transport.ErrBufOverflow
		}
		return copy(b, m), nil
	case <-c.closed:
		return 0, net.ErrClosed
	}
}

func (c *ScriptConn) WriteMsg(b []byte) error {
	select {
	case <-c.closed:
		return net.ErrClosed
	default:
	}
	c.mu.Lock()
	c.out = append(c.out, append([]byte(nil), b...))
	c.mu.Unlock()
	return nil
}

func (c *ScriptConn) Read(b []byte) (int, error)  { return c.ReadMsg(b) }
func (c *ScriptConn) Write(b []byte) (int, error) { return len(b), c.WriteMsg(b) }
func (c *ScriptConn) Close() error {
	c.once.Do(func() { close(c.closed) })
	return nil
}
func (c *ScriptConn) LocalAddr() net.Addr                { return addr("local") }
func (c *ScriptConn) RemoteAddr() net.Addr               { return addr("remote") }
func (c *ScriptConn) SetDeadline(t time.Time) error      { return nil }
func (c *ScriptConn) SetReadDeadline(t time.Time) error  { return nil }
func (c *ScriptConn) SetWriteDeadline(t time.Time) error { return nil }

// Feed hands one datagram to the muxer's receiver and waits until the receiver has finished
// with it: every ReadMsg call takes exactly one datagram, so the receiver is done with datagram
// number h when it has begun its (h+1)-th ReadMsg call.  false: that did not happen within the
// watchdog.  Feed is called from one goroutine only.
func (c *ScriptConn) Feed(b []byte) bool {
	t := time.NewTimer(FeedWatchdog)
	defer t.Stop()
	select {
	case c.in <- b:
	case <-t.C:
		if os.Getenv("MUXH_DEBUG") != "" {
			fmt.Fprintf(os.Stderr, "feed: nobody took datagram %d (reads=%d)\n", c.fed+1, c.reads.Load())
		}
		return false
	case <-c.closed:
		return false
	}
	c.fed++
	deadline := time.Now().Add(FeedWatchdog)
	for c.reads.Load() < c.fed+1 {
		if time.Now().After(deadline) {
			if os.Getenv("MUXH_DEBUG") != "" {
				fmt.Fprintf(os.Stderr, "feed: receiver did not return from datagram %d (reads=%d)\n", c.fed, c.reads.Load())
			}
			return false
		}
		select {
		case <-c.closed:
			return false
		default:
		}
		time.Sleep(20 * time.Microsecond)
	}
	return true
}

// Sent returns the datagrams written by the muxer from index `from` on.
func (c *ScriptConn) Sent(from int) [][]byte {
	c.mu.Lock()
	defer c.mu.Unlock()
	if from > len(c.out) {
		from = len(c.out)
	}
	return append([][]byte(nil), c.out[from:]...)
}

func (c *ScriptConn) NumSent() int {
	c.mu.Lock()
	defer c.mu.Unlock()
	return len(c.out)
}

// ---------------------------------------------------------------- frames for generators

// Flags: subset of Q(REQ) P(RESP) L(REL) A(ACK) F(FIN) T(RTR).
func ParseFlags(s string, f *tubes.VerifTFrame) bool {
	if s == "-" {
		return true
	}
	for _, c := range s {
		switch c {
		case 'Q':
			f.REQ = true
		case 'P':
			f.RESP = true
		case 'L':
			f.REL = true
		case 'A':
			f.ACK = true
		case 'F':
			f.FIN = true
		case 'T':
			f.RTR = true
		default:
			return false
		}
	}
	return true
}

// Frame is frame.toBytes of hop-go for the given fields.
func Frame(id byte, flags string, ackNo, frameNo uint32, data []byte) []byte {
	f := tubes.VerifTFrame{TubeID: id, AckNo: ackNo, FrameNo: frameNo, Data: data, DataLength: uint16(len(data))}
	ParseFlags(flags, &f)
	return tubes.VerifTubeFrameBytes(f)
}

// Init is initiateFrame.toBytes of hop-go (10 byte header, no data).
func Init(id byte, flags string, tubeType byte) []byte {
	f := tubes.VerifTFrame{}
	ParseFlags(flags, &f)
	return tubes.VerifInitFrameBytes(id, tubes.TubeType(tubeType), 0, f)
}

// ---------------------------------------------------------------- interpreter

type key struct {
	rel bool
	id  byte
}

// reservation: a reliable tube of the muxer's parity was closed at t0 (its sender's round-trip
// estimate was rtt then); the reaper keeps it in the map for 4*RTT
type reservation struct {
	t0  time.Time
	rtt time.Duration
}

type session struct {
	conn  *ScriptConn
	mux   *tubes.Muxer
	held  map[key]tubes.Tube
	stopd bool
	// reserved: tubes closed by `shut` whose reaper has not been waited for yet
	reserved map[key]reservation
	// void: the machine was so slow that a reservation may have run out while operations that
	// depend on it were still to come: the rest of the case is not compared (<skipped>)
	void bool
	// wedged: the receiver did not come back from a datagram; later feeds answer at once and
	// Stop gets a short watchdog (a wedged receiver holds the muxer lock)
	wedged bool
}

func (s *session) feed(b []byte) bool {
	if s.wedged {
		return false
	}
	if !s.conn.Feed(b) {
		s.wedged = true
		return false
	}
	return true
}

func quietLog() *logrus.Entry {
	l := logrus.New()
	l.SetOutput(io.Discard)
	l.SetLevel(logrus.PanicLevel)
	return logrus.NewEntry(l)
}

func newSession(parity int) *session {
	c := NewScriptConn()
	cfg := &tubes.Config{Timeout: 0, Log: quietLog()}
	var m *tubes.Muxer
	if parity == 0 {
		m = tubes.Server(c, cfg)
	} else {
		m = tubes.Client(c, cfg)
	}
	return &session{conn: c, mux: m, held: map[key]tubes.Tube{}}
}

func (s *session) discard() {
	if s == nil || s.stopd {
		return
	}
	s.stopd = true
	go s.mux.Stop()
}

func parseKey(r, id string) (key, bool) {
	n, err := strconv.Atoi(id)
	if err != nil || n < 0 || n > 255 || (r != "r" && r != "u") {
		return key{}, false
	}
	return key{rel: r == "r", id: byte(n)}, true
}

func relLetter(rel bool) string {
	if rel {
		return "r"
	}
	return "u"
}

const (
	stCreated   = 0
	stInitiated = 1
	stCloseWait = 2
)

func tubeState(t tubes.Tube) int {
	switch x := t.(type) {
	case *tubes.Reliable:
		return x.VerifState()
	case *tubes.Unreliable:
		return x.VerifState()
	}
	return -1
}

func (s *session) read(k key, n int) string {
	t, ok := s.held[k]
	if !ok {
		return "no-tube"
	}
	if tubeState(t) == stCreated {
		return "block"
	}
	buf := make([]byte, n)
	switch x := t.(type) {
	case *tubes.Reliable:
		have, closed := x.VerifBuffered()
		if have == 0 && !closed {
			return "block"
		}
		k, err := x.Read(buf)
		if err != nil && err != io.EOF {
			return "err"
		}
		e := " 0"
		if err == io.EOF {
			e = " 1"
		}
		return HexOrDash(buf[:k]) + e
	case *tubes.Unreliable:
		// an expired deadline makes Recv return at once when nothing is queued: io.EOF if the
		// receive side is closed, a deadline error otherwise
		x.SetReadDeadline(time.Now().Add(-time.Second))
		k, _, _, _, err := x.ReadMsgUDP(buf, nil)
		x.SetReadDeadline(time.Time{})
		switch {
		case err == nil:
			return HexOrDash(buf[:k]) + " 0"
		case err == io.EOF:
			return "eof"
		case errors.Is(err, os.ErrDeadlineExceeded):
			return "block"
		default: // transport.ErrBufOverflow: message longer than the buffer
			return HexOrDash(buf[:k]) + " 1"
		}
	}
	return "err"
}

func (s *session) write(k key, data []byte) string {
	t, ok := s.held[k]
	if !ok {
		return "no"
	}
	st := tubeState(t)
	if !(st == stInitiated || (k.rel && st == stCloseWait)) {
		return "no"
	}
	from := s.conn.NumSent()
	if _, err := t.Write(data); err != nil {
		return "werr"
	}
	deadline := time.Now().Add(SendWatchdog)
	for time.Now().Before(deadline) {
		for _, d := range s.conn.Sent(from) {
			f, err := tubes.VerifTubeFrameParse(d)
			if err == nil && f.TubeID == k.id && f.REL == k.rel && !f.REQ && !f.RESP && bytes.Equal(f.Data, data) {
				return "ok"
			}
		}
		time.Sleep(200 * time.Microsecond)
	}
	return "lost"
}

func (s *session) waitGone(k key) bool {
	deadline := time.Now().Add(ReapWatchdog)
	for s.mux.VerifHasTube(k.rel, k.id) {
		if time.Now().After(deadline) {
			return false
		}
		time.Sleep(time.Millisecond)
	}
	return true
}

// closeHandshake drives a reliable tube to the closed state, playing the peer.
func (s *session) closeHandshake(k key, x *tubes.Reliable, st int) bool {
	if st == stInitiated {
		ws := x.VerifRecvWindowStart()
		if !s.feed(Frame(k.id, "LF", 0, uint32(ws), nil)) {
			return false
		}
	}
	x.Close()
	fn := x.VerifSenderFrameNo()
	return s.feed(Frame(k.id, "LA", fn, 0, nil))
}

// shut closes a reliable tube with an identifier of the muxer's parity and does NOT wait for the
// reaper: the tube stays in the map, its identifier reserved, for 4*RTT (`reap` waits for the end).
func (s *session) shut(k key) string {
	t, ok := s.held[k]
	if !ok {
		return "no"
	}
	x, isRel := t.(*tubes.Reliable)
	st := tubeState(t)
	if !isRel || k.id%2 != s.mux.VerifIDParity() || (st != stInitiated && st != stCloseWait) {
		return "no"
	}
	res := reservation{rtt: x.VerifRTT(), t0: time.Now()}
	if !s.closeHandshake(k, x, st) {
		return "blocked"
	}
	done := make(chan struct{})
	go func() { x.WaitForClose(); close(done) }()
	select {
	case <-done:
	case <-time.After(ReapWatchdog):
		return "stuck"
	}
	delete(s.held, k)
	if s.reserved == nil {
		s.reserved = map[key]reservation{}
	}
	s.reserved[k] = res
	return "ok"
}

// checkReservations: see session.void.  The reaper waits 4*RTT' where RTT' is the estimate after
// the close handshake (at least (7/8)^2 of the one read before it); operations are only judged
// while less than 2*rtt have passed.
func (s *session) checkReservations() {
	for _, r := range s.reserved {
		if time.Since(r.t0) > 2*r.rtt {
			s.void = true
		}
	}
}

// reap drives the tube through its close handshake, playing the peer, and waits for the reaper.
func (s *session) reap(k key) string {
	if r, ok := s.reserved[k]; ok {
		delete(s.reserved, k)
		if !s.waitGone(k) {
			return "stuck"
		}
		if time.Since(r.t0) < r.rtt {
			return "early"
		}
		return "ok"
	}
	t, ok := s.held[k]
	if !ok {
		return "no"
	}
	st := tubeState(t)
	switch x := t.(type) {
	case *tubes.Reliable:
		if st != stInitiated && st != stCloseWait {
			return "no"
		}
		if st == stInitiated {
			ws := x.VerifRecvWindowStart()
			if !s.feed(Frame(k.id, "LF", 0, uint32(ws), nil)) {
				return "blocked"
			}
		}
		// The identifier of a reliable tube this side opened stays reserved for 4*RTT after the tube
		// is closed (reapTube), so that the peer's lastAck retransmissions and other stragglers find
		// no successor tube.  Timers never fire early, so on the code as it stands the tube cannot be
		// gone sooner than that after Close was called; `early` is reported when it is gone after
		// less than ONE such RTT (the estimate shrinks by at most 1/8 per acknowledgement, and fewer
		// than ten are processed here; a slow machine only makes the measured time longer).
		own := k.id%2 == s.mux.VerifIDParity()
		rtt := x.VerifRTT()
		t0 := time.Now()
		x.Close()
		fn := x.VerifSenderFrameNo()
		if !s.feed(Frame(k.id, "LA", fn, 0, nil)) {
			return "blocked"
		}
		delete(s.held, k)
		if !s.waitGone(k) {
			return "stuck"
		}
		if own && time.Since(t0) < rtt {
			return "early"
		}
		return "ok"
	case *tubes.Unreliable:
		x.Close()
	}
	delete(s.held, k)
	if !s.waitGone(k) {
		return "stuck"
	}
	return "ok"
}

// Exec runs the operation lines of one or more cases sequentially.
func Exec(in *bufio.Scanner, out *bufio.Writer) {
	var s *session
	for in.Scan() {
		f := strings.Fields(in.Text())
		res := "bad-op"
		if s != nil {
			s.checkReservations()
		}
		switch {
		case len(f) == 2 && f[0] == "new":
			p, err := strconv.Atoi(f[1])
			if err == nil && (p == 0 || p == 1) {
				s.discard()
				s = newSession(p)
				res = "ok"
			}
		case s == nil || s.stopd:
		case s.void && f[0] != "stop":
			res = "<skipped>"
		case s.wedged && f[0] != "stop":
			// the receiver is stuck (possibly holding the muxer lock): nothing else is attempted
			res = "wedged"
		case len(f) == 2 && (f[0] == "raw" || f[0] == "rawnw"):
			if b, ok := Unhex(f[1]); ok && len(b) <= 65535 {
				if s.feed(b) {
					res = "ok"
					// An initiation frame starts the tube's initiate goroutine.  hop-go has a race
					// here (a FIN processed before that goroutine runs leaves the tube without a
					// running sender); `raw` does not race with it: it waits for the goroutine.
					// `rawnw` does not wait: the next datagram may overtake that goroutine (what a
					// peer that sends REQ and FIN back to back achieves); only what does not depend on
					// the sender - states, reads, Stop returning - is asked about afterwards.
					if f[0] == "raw" && len(b) >= 2 && b[1]&3 != 0 {
						dl := time.Now().Add(2 * time.Second)
						for !s.mux.VerifInitSettled(b[1]&4 != 0, b[0]) && time.Now().Before(dl) {
							time.Sleep(50 * time.Microsecond)
						}
					}
				} else {
					res = "blocked"
				}
			}
		case len(f) == 1 && f[0] == "accept":
			t, ok := s.mux.VerifTryAccept()
			if !ok {
				res = "none"
			} else {
				k := key{t.IsReliable(), t.GetID()}
				s.held[k] = t
				res = fmt.Sprintf("%s %d %d", relLetter(k.rel), k.id, byte(t.Type()))
			}
		case len(f) == 3 && f[0] == "create":
			ty, err := strconv.Atoi(f[2])
			if err == nil && ty >= 0 && ty < 256 && (f[1] == "r" || f[1] == "u") {
				var t tubes.Tube
				var e error
				if f[1] == "r" {
					var r *tubes.Reliable
					r, e = s.mux.CreateReliableTube(tubes.TubeType(ty))
					t = r
				} else {
					var u *tubes.Unreliable
					u, e = s.mux.CreateUnreliableTube(tubes.TubeType(ty))
					t = u
				}
				if e != nil {
					res = "err"
				} else {
					s.held[key{f[1] == "r", t.GetID()}] = t
					res = strconv.Itoa(int(t.GetID()))
				}
			}
		case len(f) == 4 && f[0] == "ccreate":
			ty, err := strconv.Atoi(f[2])
			n, err2 := strconv.Atoi(f[3])
			if err == nil && err2 == nil && ty >= 0 && ty < 256 && n >= 1 && n <= 300 && (f[1] == "r" || f[1] == "u") {
				ids := make([]int, n)
				hs := make([]tubes.Tube, n)
				var wg sync.WaitGroup
				for i := 0; i < n; i++ {
					wg.Add(1)
					go func(i int) {
						defer wg.Done()
						if f[1] == "r" {
							r, e := s.mux.CreateReliableTube(tubes.TubeType(ty))
							if e != nil {
								ids[i] = 1000
							} else {
								ids[i], hs[i] = int(r.GetID()), r
							}
						} else {
							u, e := s.mux.CreateUnreliableTube(tubes.TubeType(ty))
							if e != nil {
								ids[i] = 1000
							} else {
								ids[i], hs[i] = int(u.GetID()), u
							}
						}
					}(i)
				}
				wg.Wait()
				for i, h := range hs {
					if h != nil {
						s.held[key{f[1] == "r", byte(ids[i])}] = h
					}
				}
				sort.Ints(ids)
				var parts []string
				for _, id := range ids {
					if id == 1000 {
						parts = append(parts, "err")
					} else {
						parts = append(parts, strconv.Itoa(id))
					}
				}
				res = strings.Join(parts, ",")
			}
		case len(f) == 4 && f[0] == "read":
			k, ok := parseKey(f[1], f[2])
			n, err := strconv.Atoi(f[3])
			if ok && err == nil && n >= 0 && n <= 70000 {
				res = s.read(k, n)
			}
		case len(f) == 4 && f[0] == "wr":
			k, ok := parseKey(f[1], f[2])
			d, ok2 := Unhex(f[3])
			if ok && ok2 && len(d) > 0 && len(d) <= 1000 {
				res = s.write(k, d)
			}
		case len(f) == 3 && f[0] == "reap":
			if k, ok := parseKey(f[1], f[2]); ok {
				res = s.reap(k)
			}
		case len(f) == 3 && f[0] == "shut":
			if k, ok := parseKey(f[1], f[2]); ok {
				res = s.shut(k)
			}
		case len(f) == 3 && f[0] == "has":
			if k, ok := parseKey(f[1], f[2]); ok {
				res = "0"
				if s.mux.VerifHasTube(k.rel, k.id) {
					res = "1"
				}
			}
		case len(f) == 1 && f[0] == "stop", len(f) == 2 && f[0] == "stopfeed", len(f) == 3 && f[0] == "stopfeed2":
			var settle time.Duration
			if f[0] == "stopfeed2" {
				// two datagrams from the peer during Stop: the first while Stop waits for the tubes (the muxer
				// is stopping, the receiver has time to handle it), the second after the send queues were closed
				b1, ok1 := Unhex(f[1])
				b2, ok2 := Unhex(f[2])
				if !ok1 || !ok2 || len(b1) > 65535 || len(b2) > 65535 {
					break
				}
				var once1, once2 sync.Once
				conn := s.conn
				settle = 0
				tubes.SetVerifYield(func(site string) {
					switch site {
					case "Muxer.Stop.waiting":
						once1.Do(func() { conn.Feed(b1); time.Sleep(60 * time.Millisecond) })
					case "Muxer.Stop.queuesClosed":
						once2.Do(func() {
							if !conn.Feed(b2) {
								settle = 700 * time.Millisecond // the receiver is still busy with it (or gone)
							}
							time.Sleep(60 * time.Millisecond)
						})
					}
				})
				defer tubes.SetVerifYield(nil)
			}
			if f[0] == "stopfeed" {
				// Stop with a datagram from the peer arriving at a chosen moment: after Stop has closed
				// the muxer's send queues and before it closes the transport (the receiver still runs)
				b, ok := Unhex(f[1])
				if !ok || len(b) > 65535 {
					break
				}
				var once sync.Once
				conn := s.conn
				tubes.SetVerifYield(func(site string) {
					if site == "Muxer.Stop.queuesClosed" {
						once.Do(func() { conn.Feed(b) })
					}
				})
				defer tubes.SetVerifYield(nil)
			}
			done := make(chan struct{})
			go func() { s.mux.Stop(); close(done) }()
			wd := StopWatchdog
			if s.wedged {
				wd = 5 * time.Second
			}
			select {
			case <-done:
				res = "ok"
				// a receiver that was still working on the last datagram finishes (or crashes) within this operation
				time.Sleep(settle)
			case <-time.After(wd):
				res = "stuck"
				if dir := os.Getenv("HV_STUCK_DUMP"); dir != "" {
					buf := make([]byte, 1<<20)
					n := runtime.Stack(buf, true)
					os.WriteFile(fmt.Sprintf("%s/stuck-%d.txt", dir, os.Getpid()), buf[:n], 0o644)
				}
			}
			s.stopd = true
		}
		out.WriteString(res)
		out.WriteByte('\n')
		out.Flush()
	}
	s.discard()
}

// ---------------------------------------------------------------- process isolation

// RunIsolated distributes the cases over child processes (`<self> <workerSuite> run`), one case at
// a time per child.  When a child dies the operation in flight answers `panic` (or `died` when the
// child's stderr shows no Go panic) and the rest of that case answers `dead`.
func RunIsolated(workerSuite string, workers int) func(in *bufio.Scanner, out *bufio.Writer) {
	return func(in *bufio.Scanner, out *bufio.Writer) {
		var lines []string
		for in.Scan() {
			lines = append(lines, in.Text())
		}
		var starts []int
		for i, l := range lines {
			if i == 0 || strings.HasPrefix(l, "new ") || l == "new" {
				starts = append(starts, i)
			}
		}
		starts = append(starts, len(lines))
		results := make([]string, len(lines))
		jobs := make(chan int)
		var wg sync.WaitGroup
		if workers > len(starts)-1 {
			workers = len(starts) - 1
		}
		if workers < 1 {
			workers = 1
		}
		for w := 0; w < workers; w++ {
			wg.Add(1)
			go func() {
				defer wg.Done()
				var ch *child
				for c := range jobs {
					for i := starts[c]; i < starts[c+1]; i++ {
						if ch == nil {
							ch = startChild(workerSuite)
						}
						r, ok := ch.ask(lines[i])
						if ok {
							results[i] = r
							continue
						}
						results[i] = ch.deathKind()
						for j := i + 1; j < starts[c+1]; j++ {
							results[j] = "dead"
						}
						ch.kill()
						ch = nil
						break
					}
				}
				if ch != nil {
					ch.kill()
				}
			}()
		}
		for c := 0; c+1 < len(starts); c++ {
			jobs <- c
		}
		close(jobs)
		wg.Wait()
		for _, r := range results {
			out.WriteString(r)
			out.WriteByte('\n')
		}
	}
}

type child struct {
	cmd    *exec.Cmd
	stdin  io.WriteCloser
	stdout *bufio.Reader
	stderr *bytes.Buffer
}

func startChild(suite string) *child {
	cmd := exec.Command(os.Args[0], suite, "run")
	stdin, _ := cmd.StdinPipe()
	stdout, _ := cmd.StdoutPipe()
	var eb bytes.Buffer
	cmd.Stderr = &eb
	if err := cmd.Start(); err != nil {
		fmt.Fprintln(os.Stderr, "cannot start worker:", err)
		os.Exit(3)
	}
	return &child{cmd: cmd, stdin: stdin, stdout: bufio.NewReaderSize(stdout, 1<<20), stderr: &eb}
}

func (c *child) ask(line string) (string, bool) {
	if _, err := io.WriteString(c.stdin, line+"\n"); err != nil {
		return "", false
	}
	type ans struct {
		s   string
		err error
	}
	ch := make(chan ans, 1)
	go func() {
		s, err := c.stdout.ReadString('\n')
		ch <- ans{s, err}
	}()
	select {
	case a := <-ch:
		if a.err != nil {
			return "", false
		}
		return strings.TrimRight(a.s, "\n"), true
	case <-time.After(90 * time.Second): // every operation has its own watchdog of 30 s at most
		return "", false
	}
}

func (c *child) deathKind() string {
	done := make(chan struct{})
	go func() { c.cmd.Wait(); close(done) }()
	select {
	case <-done:
	case <-time.After(5 * time.Second):
		return "hung"
	}
	e := c.stderr.String()
	if strings.Contains(e, "panic:") || strings.Contains(e, "fatal error:") {
		return "panic"
	}
	return "died"
}

func (c *child) kill() {
	c.stdin.Close()
	if c.cmd.Process != nil {
		c.cmd.Process.Kill()
	}
	go c.cmd.Wait()
}
