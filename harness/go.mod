module hopverif

go 1.24

require (
	github.com/AstromechZA/etcpwdparse v0.0.0-20170319193008-f0e5f0779716
	github.com/sirupsen/logrus v1.8.3
	golang.org/x/crypto v0.11.1-0.20230711161743-2e82bdd1719d
	hop.computer/hop v0.0.0
)

require (
	github.com/BurntSushi/toml v1.2.0 // indirect
	github.com/cloudflare/circl v1.6.1 // indirect
	github.com/creack/pty v1.1.18 // indirect
	github.com/google/go-cmp v0.5.9 // indirect
	github.com/mattn/go-isatty v0.0.20 // indirect
	github.com/muesli/cancelreader v0.2.2 // indirect
	github.com/pkg/errors v0.9.1 // indirect
	github.com/sbinet/pstree v0.3.0 // indirect
	goji.io v2.0.2+incompatible // indirect
	golang.org/x/exp v0.0.0-20221215174704-0915cd710c24 // indirect
	golang.org/x/sys v0.30.0 // indirect
	golang.org/x/term v0.10.0 // indirect
	gotest.tools v2.2.0+incompatible // indirect
)

replace hop.computer/hop => /repo

replace github.com/BurntSushi/toml => github.com/drebelsky/toml v0.0.2
