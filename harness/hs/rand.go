package hs

import "crypto/rand"

func cryptoRead(b []byte) (int, error) { return rand.Read(b) }
