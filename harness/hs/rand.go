package hs

import "crypto/rand"

func cryptoRead(b []byte) (int, error) { return rand.Read(b) }

// RandRead fills b from crypto/rand.
func RandRead(b []byte) (int, error) { return rand.Read(b) }
