// Package hs runs one real PQ handshake between a real transport.Client and a real
// transport.Server over the in-memory network, with misconfigured (dishonest) endpoints and
// in-flight tampering, and reports what each side concluded.  Shared by the C01, C02 and C19
// harnesses.
package hs

import (
	"errors"
	"fmt"
	"io"
	"time"

	"hop.computer/hop/certs"
	"hop.computer/hop/keys"
	"hop.computer/hop/transport"
	"hopverif/tnet"
)

// Scenario describes the endpoints of one handshake.
type Scenario struct {
	Hidden     bool
	Policy     string // server's client verification: nil | skip | store | authkeys | both
	ServerAdv  string // ok | wrongkey | othername | othertype | expired | notyet | wrongtype | otherroot | selfsigned
	ClientAdv  string // ok | wrongkey | expired | otherroot | selfsigned | wrongtype
	KeyListed  bool   // the client's certified key is in the server's authorized-key set
	Revoked    bool   // … it was, and has been removed again before the handshake
	NoName     bool   // the client does not ask for a particular server name
	ServerCB   string // additional verify callback in the server's client policy: "" | ok | deny
	ClientSkip bool   // the client's VerifyConfig has InsecureSkipVerify
	ClientCB   string // additional verify callback in the client's VerifyConfig: "" | ok | deny
	Decoys     int    // hidden mode: certificates of other virtual hosts ahead of the real one in the server's list
}

// Result is what the endpoints concluded.
type Result struct {
	ClientOK bool // Client.Handshake returned nil
	Handle   bool // the server offered a connection to Accept
	C2S, S2C bool // application data written by one side was returned to the other side's reader
	KeysEq   bool // both completed and hold equal session id and directional keys
	DirsDiff bool // the two directional keys differ
	CInfo    *transport.VerifSessionInfo
	SInfo    *transport.VerifSessionInfo
	Stuck    bool
	Dgrams   []tnet.Dgram
}

var thePKI *tnet.PKI

func PKI() *tnet.PKI {
	if thePKI == nil {
		thePKI = tnet.NewPKI()
	}
	return thePKI
}

// leafFor builds the certificate an endpoint presents, given its adversary kind; it returns the
// leaf, the presented intermediate and the DH key pair the endpoint actually holds.
func leafFor(adv string, name string) (*certs.Certificate, *certs.Certificate, *keys.X25519KeyPair, time.Time) {
	p := PKI()
	certKey := keys.GenerateNewX25519KeyPair() // the key named in the certificate
	held := certKey
	var clock time.Time // verification clock override for the *verifier* (zero = now)
	n := certs.RawStringName(name)
	var leaf, inter *certs.Certificate
	inter = p.Inter
	switch adv {
	case "ok":
		leaf = p.Leaf(certKey.Public, n)
	case "wrongkey":
		leaf = p.Leaf(certKey.Public, n)
		held = keys.GenerateNewX25519KeyPair()
	case "othername":
		leaf = p.Leaf(certKey.Public, certs.RawStringName("somebody-else"))
	case "othertype":
		// the expected label under another name type
		leaf = p.Leaf(certKey.Public, certs.DNSName(name))
	case "expired":
		leaf = p.LeafAt(certKey.Public, time.Now(), time.Second, n)
		clock = time.Now().Add(time.Hour)
	case "notyet":
		leaf = p.LeafAt(certKey.Public, time.Now().Add(2*time.Hour), time.Hour, n)
	case "lapsed":
		// valid when issued and for two more seconds; RunProbe presents it after it has run out, to a
		// verifier on the real clock that has verified other certificates before
		leaf = p.LeafAt(certKey.Public, time.Now(), 2*time.Second, n)
	case "wrongtype":
		c, err := certs.IssueIntermediate(p.Root, &certs.Identity{PublicKey: certKey.Public, Names: []certs.Name{n}})
		if err != nil {
			panic(err)
		}
		leaf, inter = c, nil
	case "otherroot":
		leaf, inter = p.OtherLeaf(certKey.Public, n), p.OtherI
	case "selfsigned":
		leaf, inter = tnet.SelfSigned(certKey.Public, n), nil
	default:
		panic("unknown adversary kind " + adv)
	}
	return leaf, inter, held, clock
}

// Build creates the two endpoints of a scenario.
func Build(sc Scenario, addr int) (*tnet.Srv, *tnet.Cli) {
	sv, kemPub, cv := BuildServer(sc)
	cl := BuildClient(sc, addr, kemPub)
	if (sc.KeyListed || sc.Revoked) && cv != nil {
		cv.AuthKeys.AddKey(cl.CertKey)
	}
	if sc.Revoked && cv != nil {
		cv.AuthKeys.RemoveKey(cl.CertKey)
	}
	return sv, cl
}

// BuildServer creates the server of a scenario (its client policy is prepared for the scenario's
// client adversary) and returns its KEM public key.
func BuildServer(sc Scenario) (*tnet.Srv, *keys.KEMPublicKey, *transport.VerifyConfig) {
	p := PKI()
	sLeaf, sInter, sHeld, _ := leafFor(sc.ServerAdv, tnet.ServerName)
	kem, err := keys.GenerateKEMKeyPair(randReader{})
	if err != nil {
		panic(err)
	}
	var cv *transport.VerifyConfig
	switch sc.Policy {
	case "nil":
	case "skip":
		cv = p.ClientVerify(tnet.PolicySkip)
	case "store":
		cv = p.ClientVerify(tnet.PolicyStore)
	case "authkeys":
		cv = p.ClientVerify(tnet.PolicyAuthKeys)
	case "both":
		cv = p.ClientVerify(tnet.PolicyBoth)
	default:
		panic("unknown policy " + sc.Policy)
	}
	if cv != nil && (sc.ClientAdv == "expired") {
		cv.CurrentTime = time.Now().Add(time.Hour)
	}
	if cv != nil && sc.ServerCB != "" {
		cv.AddVerifyCallback = callback(sc.ServerCB)
	}
	scfg := transport.ServerConfig{
		KeyPair: sHeld, KEMKeyPair: kem, Certificate: sLeaf, Intermediate: sInter, ClientVerify: cv,
		IsHidden: sc.Hidden, MaxPendingConnections: 4,
	}
	if sc.Hidden && sc.Decoys > 0 {
		// several virtual hosts: the request is tried against every certificate of the list in turn; the
		// one the client addressed comes last
		rawLeaf, _ := sLeaf.Marshal()
		var rawInter []byte
		if sInter != nil {
			rawInter, _ = sInter.Marshal()
		}
		real := &transport.Certificate{RawLeaf: rawLeaf, RawIntermediate: rawInter, Exchanger: sHeld, KEMKeyPair: kem,
			Leaf: sLeaf, HostNames: []string{tnet.ServerName}}
		var list []*transport.Certificate
		for i := 0; i < sc.Decoys; i++ {
			dk := keys.GenerateNewX25519KeyPair()
			dkem, err := keys.GenerateKEMKeyPair(randReader{})
			if err != nil {
				panic(err)
			}
			name := fmt.Sprintf("decoy%d.example", i)
			dl := p.Leaf(dk.Public, certs.RawStringName(name))
			rl, _ := dl.Marshal()
			ri, _ := p.Inter.Marshal()
			list = append(list, &transport.Certificate{RawLeaf: rl, RawIntermediate: ri, Exchanger: dk, KEMKeyPair: dkem, Leaf: dl,
				HostNames: []string{name}})
		}
		list = append(list, real)
		scfg.GetCertificate = func(transport.ClientHandshakeInfo) (*transport.Certificate, error) { return real, nil }
		scfg.GetCertList = func() ([]*transport.Certificate, error) { return list, nil }
	}
	pub := kem.Public
	return tnet.NewSrv(scfg), &pub, cv
}

// BuildClient creates a client of a scenario for an existing server.
func BuildClient(sc Scenario, addr int, kemPub *keys.KEMPublicKey) *tnet.Cli {
	p := PKI()
	cLeaf, cInter, cHeld, _ := leafFor(sc.ClientAdv, "client")
	verify := transport.VerifyConfig{Store: p.Store}
	if sc.ServerAdv == "expired" {
		verify.CurrentTime = time.Now().Add(time.Hour)
	}
	if !sc.NoName {
		verify.Name = certs.RawStringName(tnet.ServerName)
	}
	verify.InsecureSkipVerify = sc.ClientSkip
	if sc.ClientCB != "" {
		verify.AddVerifyCallback = callback(sc.ClientCB)
	}
	ccfg := transport.ClientConfig{Exchanger: cHeld, Leaf: cLeaf, Intermediate: cInter, Verify: verify}
	if sc.Hidden {
		ccfg.ServerKEMKey = kemPub
	}
	cl := tnet.NewCli(tnet.Addr(addr), ccfg)
	cl.CertKey = cLeaf.PublicKey
	return cl
}

// callback is an additional verification callback that accepts ("ok") or refuses every certificate
func callback(kind string) transport.AdditionalVerifyCallback {
	return func(*certs.Certificate) error {
		if kind == "ok" {
			return nil
		}
		return errors.New("refused by the additional callback")
	}
}

type randReader struct{}

func (randReader) Read(b []byte) (int, error) { return cryptoRead(b) }

// Run performs the handshake (tampering through hook) and the data probes, then tears down.
func Run(sc Scenario, hook tnet.Hook) Result {
	sv, cl := Build(sc, 1)
	defer sv.Close()
	defer cl.Close()
	return Finish(sv, cl, tnet.Pump(sv, cl, tnet.Addr(1), hook))
}

// RunProbe is Run followed by a liveness probe of the same server: a second, honest client whose key
// is listed and who accepts any server certificate performs a handshake.  Whatever the first
// counterpart presented, the server must still serve (alive = "1"; "0" when it does not, "-" when
// the probe says nothing: a server that does not hold its certified key, or whose policy callback
// refuses everybody).
func RunProbe(sc Scenario) (Result, string) {
	sv, kemPub, cv := BuildServer(sc)
	cl := BuildClient(sc, 1, kemPub)
	if (sc.KeyListed || sc.Revoked) && cv != nil {
		cv.AuthKeys.AddKey(cl.CertKey)
	}
	if sc.Revoked && cv != nil {
		cv.AuthKeys.RemoveKey(cl.CertKey)
	}
	defer sv.Close()
	defer cl.Close()
	if sc.ClientAdv == "lapsed" {
		// the verification policy is shared by all handshakes of a server: an honest client is served
		// while the certificate is still valid, the certificate runs out, then its holder arrives
		sc0 := sc
		sc0.ClientAdv, sc0.ClientSkip, sc0.ClientCB, sc0.NoName = "ok", true, "", true
		cl0 := BuildClient(sc0, 3, kemPub)
		defer cl0.Close()
		if cv != nil {
			cv.AuthKeys.AddKey(cl0.CertKey)
		}
		tnet.Pump(sv, cl0, tnet.Addr(3), nil)
		if _, _, pending := sv.S.VerifTableSizes(); pending > 0 {
			if h0, err := sv.S.AcceptTimeout(5 * time.Second); err == nil {
				defer h0.Close()
			}
		}
		time.Sleep(3200 * time.Millisecond)
	}
	r := Finish(sv, cl, tnet.Pump(sv, cl, tnet.Addr(1), nil))
	if sc.ServerAdv == "wrongkey" || (sc.ServerCB == "deny" && cv != nil) {
		return r, "-"
	}
	sc2 := sc
	sc2.ClientAdv, sc2.ClientSkip, sc2.ClientCB, sc2.NoName = "ok", true, "", true
	cl2 := BuildClient(sc2, 2, kemPub)
	defer cl2.Close()
	if cv != nil {
		cv.AuthKeys.AddKey(cl2.CertKey)
	}
	tnet.Pump(sv, cl2, tnet.Addr(2), nil)
	if !(cl2.Finished() && cl2.HSErr == nil) {
		return r, "0"
	}
	if _, err := sv.S.AcceptTimeout(5 * time.Second); err != nil {
		return r, "0"
	}
	return r, "1"
}

// Finish observes the outcome of a pumped handshake.
func Finish(sv *tnet.Srv, cl *tnet.Cli, all []tnet.Dgram) Result {
	var r Result
	r.Dgrams = all
	r.ClientOK = cl.Finished() && cl.HSErr == nil
	_, _, pending := sv.S.VerifTableSizes()
	var h *transport.Handle
	if pending > 0 {
		hh, err := sv.S.AcceptTimeout(5 * time.Second)
		if err == nil {
			h = hh
			r.Handle = true
		}
	}
	if r.ClientOK {
		r.CInfo = cl.C.VerifSession()
	}
	if h != nil {
		r.SInfo = h.VerifSession()
	}
	if r.CInfo != nil && r.SInfo != nil {
		r.KeysEq = r.CInfo.SessionID == r.SInfo.SessionID && r.CInfo.ClientToServerKey == r.SInfo.ClientToServerKey &&
			r.CInfo.ServerToClientKey == r.SInfo.ServerToClientKey
	}
	if r.CInfo != nil {
		r.DirsDiff = r.CInfo.ClientToServerKey != r.CInfo.ServerToClientKey
	}
	// data probes
	buf := make([]byte, 256)
	if r.ClientOK && h != nil {
		if cl.C.WriteMsg([]byte("client-data")) == nil {
			for _, d := range cl.Conn.Drain() {
				sv.Deliver(d.Data, cl.Local)
			}
			h.SetReadDeadline(time.Unix(1, 0))
			if n, err := h.ReadMsg(buf); err == nil && string(buf[:n]) == "client-data" {
				r.C2S = true
			}
		}
		if h.WriteMsg([]byte("server-data")) == nil {
			for _, d := range sv.Conn.Drain() {
				cl.Deliver(d.Data, tnet.ServerAddr)
			}
			cl.C.SetReadDeadline(time.Unix(1, 0))
			if n, err := cl.C.ReadMsg(buf); err == nil && string(buf[:n]) == "server-data" {
				r.S2C = true
			}
		}
	}
	_ = io.EOF
	return r
}

// BuildClientKEM is BuildClient with the KEM key passed as an opaque value (as kept by callers
// that do not import the keys package).
func BuildClientKEM(sc Scenario, addr int, kemPub any) *tnet.Cli {
	k, _ := kemPub.(*keys.KEMPublicKey)
	return BuildClient(sc, addr, k)
}
