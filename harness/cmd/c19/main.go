package main

import (
	"bufio"
	"fmt"
	"net"
	"strconv"
	"strings"
	"time"

	"hopverif/hs"
	. "hopverif/hvlib"
	"hopverif/tnet"
)

// C19 — statelessness before a valid cookie, silence in hidden mode.  A case:
//
//	new <hidden 0|1>
//	hello <id> <addr>                 client <id> (fresh) sends its ClientHello from <addr>; the ServerHello, if
//	                                  any, is handed to it so that its ClientAck is ready       -> out=<n> hs=<n> ss=<n>
//	ack <id> <from> <cookieOf> <rot> <flip>   client <id>'s ClientAck, its cookie replaced by client <cookieOf>'s,
//	                                  delivered from <from>; rot=1 rotates the cookie key first; flip=<field> flips a
//	                                  byte of that field (x = none)                              -> out=<n> hs=<n> ss=<n>
//	xack <addr>                       a well-formed ClientAck with a cookie minted by another server instance -> out=<n> hs=<n> ss=<n>
//	hreq <addr> <valid|wrongkem|stale|flip:<field>|replay>   hidden-mode request                 -> out=<n> ss=<n>
//	disc <hello|ack|auth>             a valid discoverable-mode message of a handshake with another server
//	junk <len> <type>                                                                             -> out=<n> hs=<n> ss=<n>
//
// Addresses: see tnet.Addr (same IP other port: 100+i; same port other IP: 200+i; IPv6: 300+i, 400+i).
func main() { Main(map[string]*Suite{"C19": {Gen: gen, Run: run}}) }

func addr(i int) *net.UDPAddr { return tnet.Addr(i) }

func gen(g *GenCtx) {
	r := g.R
	cases := 25
	if g.Thorough() {
		cases = 1200 / g.Parts
	}
	for c := 0; c < cases; c++ {
		hidden := c%3 == 2
		if hidden {
			g.Op("new 1")
			n := 10
			for i := 0; i < n; i++ {
				switch r.Intn(9) {
				case 0, 1:
					g.Op("hreq %d valid", r.Intn(6))
				case 2:
					g.Op("hreq %d wrongkem", r.Intn(6))
				case 3:
					g.Op("hreq %d flip:%d", r.Intn(6), r.Intn(7))
				case 4:
					g.Op("hreq %d replay", r.Intn(6))
				case 5:
					g.Op("disc %s", Pick(r, []string{"hello", "ack", "auth"}))
				case 6:
					g.Op("hello %d %d", 50+i, r.Intn(6))
				default:
					g.Op("junk %d %d", Pick(r, []int{0, 3, 4, 8, 36, 48, 100, 852, 1172, 2000}), Pick(r, []int{1, 3, 5, 8, 9, 16, 128, 0x7f, 2, 4}))
				}
			}
			if c == 2 && !g.Thorough() || g.Thorough() && c%40 == 2 {
				g.Op("hreq 1 stale") // a captured request replayed after the 5 s window (sleeps 6.2 s)
			}
			continue
		}
		g.Op("new 0")
		nextID := 0
		type cli struct{ id, addr int }
		var clis []cli
		steps := 14
		for i := 0; i < steps; i++ {
			switch k := r.Intn(10); {
			case k < 4 || len(clis) == 0:
				a := r.Intn(5)
				if r.Chance(1, 3) {
					a += 300 // an IPv6 client
				}
				g.Op("hello %d %d", nextID, a)
				clis = append(clis, cli{nextID, a})
				nextID++
			case k < 5: // honest ack
				c := Pick(r, clis)
				g.Op("ack %d %d %d 0 x", c.id, c.addr, c.id)
			case k < 7: // other address / other port
				c := Pick(r, clis)
				from := Pick(r, []int{(c.addr + 1) % 5, 100 + c.addr%100, 200 + c.addr%100})
				if c.addr >= 300 {
					// another IPv6 address with the same port, an IPv4 address with the same port
					from = Pick(r, []int{400 + c.addr%100, c.addr % 100, 300 + (c.addr+1)%100%5})
				}
				g.Op("ack %d %d %d 0 x", c.id, from, c.id)
			case k < 8: // cookie of another client (other key; same or other address)
				c, d := Pick(r, clis), Pick(r, clis)
				g.Op("ack %d %d %d 0 x", c.id, c.addr, d.id)
			case k < 9: // after key rotation
				c := Pick(r, clis)
				g.Op("ack %d %d %d 1 x", c.id, c.addr, c.id)
				// every cookie minted so far is now stale; the model knows
			default:
				c := Pick(r, clis)
				g.Op("ack %d %d %d 0 %d", c.id, c.addr, c.id, r.Intn(6))
			}
			if r.Chance(1, 8) {
				g.Op("xack %d", 20+r.Intn(5))
			}
			if r.Chance(1, 6) {
				g.Op("junk %d %d", Pick(r, []int{0, 3, 4, 8, 36, 100, 820, 1172}), Pick(r, []int{1, 3, 5, 8, 16, 0x7f}))
			}
		}
	}
}

type world struct {
	hidden bool
	sv     *tnet.Srv
	sv2    *tnet.Srv // another server instance (its own cookie key): source of foreign cookies
	sc     hs.Scenario
	kemPub any
	clis   map[int]*client
	others []*tnet.Cli
	lastHR []byte
	lastA  int
}

type client struct {
	cl  *tnet.Cli
	ack []byte
}

func (w *world) close() {
	if w == nil {
		return
	}
	for _, c := range w.clis {
		c.cl.Close()
	}
	for _, c := range w.others {
		c.Close()
	}
	if w.sv2 != nil {
		w.sv2.Close()
	}
	w.sv.Close()
}

func (w *world) tables(out int) string {
	h, s, _ := w.sv.S.VerifTableSizes()
	return fmt.Sprintf("out=%d hs=%d ss=%d", out, h, s)
}

var ackLayout = []int{4, 32, 800, 64, 256, 16}
var reqLayout = []int{4, 800, 768, -1, 16, 8, 16}

func fieldStart(lay []int, total, field int) (int, int) {
	n := total
	for _, s := range lay {
		if s > 0 {
			n -= s
		}
	}
	pos := 0
	for i, s := range lay {
		if s < 0 {
			s = n
		}
		if i == field {
			return pos, s
		}
		pos += s
	}
	return 0, 0
}

func (w *world) exec(f []string) string {
	num := func(s string) int { v, _ := strconv.Atoi(s); return v }
	switch {
	case len(f) == 3 && f[0] == "hello":
		sc := w.sc
		sc.Hidden = false
		_, kp, _ := hs.BuildServer(hs.Scenario{Policy: "store", ServerAdv: "ok", ClientAdv: "ok"}) // throw-away, only for a KEM key type
		_ = kp
		cl := hs.BuildClient(sc, num(f[2]), nil)
		cl.Start()
		ds := cl.Conn.Drain()
		if len(ds) != 1 {
			return "no-hello"
		}
		if res := w.sv.Deliver(ds[0].Data, addr(num(f[2]))); res != "ok" {
			return res
		}
		outs := w.sv.Conn.Drain()
		c := &client{cl: cl}
		w.clis[num(f[1])] = c
		if len(outs) == 1 && !cl.Finished() {
			cl.Deliver(outs[0].Data, tnet.ServerAddr)
			if a := cl.Conn.Drain(); len(a) == 1 {
				c.ack = a[0].Data
			}
		}
		return w.tables(len(outs))
	case len(f) == 6 && f[0] == "ack":
		c, ok := w.clis[num(f[1])]
		d, ok2 := w.clis[num(f[3])]
		if !ok || !ok2 || c.ack == nil || d.ack == nil {
			return "no-ack"
		}
		data := append([]byte(nil), c.ack...)
		cs, cl := fieldStart(ackLayout, len(data), 3)
		copy(data[cs:cs+cl], d.ack[cs:cs+cl])
		if f[4] == "1" {
			w.sv.S.VerifRotateCookieKey()
		}
		if f[5] != "x" {
			s, l := fieldStart(ackLayout, len(data), num(f[5]))
			data[s+l/2] ^= 0x40
		}
		if res := w.sv.Deliver(data, addr(num(f[2]))); res != "ok" {
			return res
		}
		return w.tables(len(w.sv.Conn.Drain()))
	case len(f) == 2 && f[0] == "xack":
		// a complete, well-formed ClientAck whose cookie was minted by ANOTHER server instance for
		// this very address and client key
		if w.sv2 == nil {
			w.sv2, _, _ = hs.BuildServer(hs.Scenario{Policy: "store", ServerAdv: "ok", ClientAdv: "ok"})
		}
		sc := w.sc
		sc.Hidden = false
		cl := hs.BuildClient(sc, num(f[1]), nil)
		w.others = append(w.others, cl)
		cl.Start()
		for _, d := range cl.Conn.Drain() {
			w.sv2.Deliver(d.Data, addr(num(f[1])))
		}
		for _, d := range w.sv2.Conn.Drain() {
			cl.Deliver(d.Data, tnet.ServerAddr)
		}
		acks := cl.Conn.Drain()
		if len(acks) != 1 {
			return "no-ack"
		}
		if res := w.sv.Deliver(acks[0].Data, addr(num(f[1]))); res != "ok" {
			return res
		}
		return w.tables(len(w.sv.Conn.Drain()))
	case len(f) == 3 && f[0] == "hreq":
		sc := w.sc
		sc.Hidden = true
		kem := w.kemPub
		var data []byte
		if f[2] == "replay" {
			if w.lastHR == nil {
				return "out=0 ss=" + w.ss()
			}
			data = w.lastHR
		} else {
			var cl *tnet.Cli
			if f[2] == "wrongkem" {
				other, kp, _ := hs.BuildServer(hs.Scenario{Policy: "store", ServerAdv: "ok", ClientAdv: "ok", Hidden: true})
				other.Close()
				cl = hs.BuildClient(sc, num(f[1]), kp)
			} else {
				cl = hs.BuildClientKEM(sc, num(f[1]), kem)
			}
			w.others = append(w.others, cl)
			cl.Start()
			ds := cl.Conn.Drain()
			if len(ds) != 1 {
				return "no-request"
			}
			data = append([]byte(nil), ds[0].Data...)
			if strings.HasPrefix(f[2], "flip:") {
				s, l := fieldStart(reqLayout, len(data), num(f[2][5:]))
				data[s+l/2] ^= 0x40
			}
			if f[2] == "valid" {
				w.lastHR = data
			}
			if f[2] == "stale" {
				time.Sleep(6200 * time.Millisecond)
			}
		}
		if res := w.sv.Deliver(data, addr(num(f[1]))); res != "ok" {
			return res
		}
		return fmt.Sprintf("out=%d ss=%s", len(w.sv.Conn.Drain()), w.ss())
	case len(f) == 2 && f[0] == "disc":
		// messages of a complete discoverable handshake with another (discoverable) server
		sc := hs.Scenario{Policy: "store", ServerAdv: "ok", ClientAdv: "ok"}
		osv, ocl := hs.Build(sc, 9)
		all := tnet.Pump(osv, ocl, tnet.Addr(9), nil)
		osv.Close()
		ocl.Close()
		var c2s [][]byte
		for _, d := range all {
			if d.Dst != nil && d.Dst.Port == tnet.ServerAddr.Port {
				c2s = append(c2s, d.Data)
			}
		}
		idx := map[string]int{"hello": 0, "ack": 1, "auth": 2}[f[1]]
		if idx >= len(c2s) {
			return "no-message"
		}
		if res := w.sv.Deliver(c2s[idx], addr(9)); res != "ok" {
			return res
		}
		return w.tables(len(w.sv.Conn.Drain()))
	case len(f) == 3 && f[0] == "junk":
		n, t := num(f[1]), num(f[2])
		data := tnet.Stream(uint64(n*131+t), n+8)[:n]
		if n > 0 {
			data[0] = byte(t)
		}
		for i := 1; i < 4 && i < n; i++ {
			data[i] = 0
		}
		if res := w.sv.Deliver(data, addr(7)); res != "ok" {
			return res
		}
		return w.tables(len(w.sv.Conn.Drain()))
	}
	return "bad-op"
}

func (w *world) ss() string {
	_, s, _ := w.sv.S.VerifTableSizes()
	return strconv.Itoa(s)
}

func run(in *bufio.Scanner, out *bufio.Writer) {
	var w *world
	defer func() { w.close() }()
	for in.Scan() {
		f := strings.Fields(in.Text())
		res := "bad-op"
		switch {
		case len(f) == 2 && f[0] == "new" && (f[1] == "0" || f[1] == "1"):
			w.close()
			sc := hs.Scenario{Hidden: f[1] == "1", Policy: "store", ServerAdv: "ok", ClientAdv: "ok"}
			sv, kemPub, _ := hs.BuildServer(sc)
			w = &world{hidden: sc.Hidden, sv: sv, sc: sc, kemPub: kemPub, clis: map[int]*client{}}
			res = "ok"
		case w != nil:
			res = Guard(func() string { return w.exec(f) })
		}
		out.WriteString(res)
		out.WriteByte('\n')
		out.Flush()
	}
}
