package main

import (
	"bufio"
	"bytes"
	"encoding/base64"
	"fmt"
	"io"
	"io/fs"
	"net"
	"os"
	"strconv"
	"strings"
	"sync"
	"testing/fstest"
	"time"

	"github.com/sirupsen/logrus"

	"github.com/AstromechZA/etcpwdparse"

	"hop.computer/hop/authgrants"
	"hop.computer/hop/authkeys"
	"hop.computer/hop/certs"
	"hop.computer/hop/common"
	"hop.computer/hop/config"
	"hop.computer/hop/core"
	"hop.computer/hop/hopserver"
	"hop.computer/hop/keys"
	"hop.computer/hop/pkg/thunks"
	"hop.computer/hop/tubes"
	"hop.computer/hop/userauth"
	. "hopverif/hvlib"
)

// C05 — user login only by a listed key or a live grant, failing closed.
//
// suite C05: histories against a real HopServer (NewHopServerExt, SetFSystem(fstest.MapFS),
// thunks.LookupUser faked): AuthorizeKey, AddAuthGrant, AuthorizeKeyAuthGrant, the transport key set,
// and the decision of checkAuthorization composed from the two public entry points exactly as
// hopserver/session.go composes them.
// suite C05parse: core.ParseAuthorizedKeys / keys.ParseDHPublicKey alone (and the two standard
// library pieces the model transcribes: strings.TrimSpace, bufio.Scanner line splitting).

func main() {
	Main(map[string]*Suite{
		"C05":      {Gen: gen, Run: run},
		"C05parse": {Gen: genParse, Run: runParse},
		"C05sess":  {Gen: genSess, Run: runSess},
		"C05race":  {Gen: genRace, Run: run},
		// sessions whose first tube is not what checkAuthorization expects (part of C11's check): refused, the
		// server process survives and still admits a listed key
		"C11sess": {Gen: func(g *GenCtx) {
			k0 := bytes.Repeat([]byte{7}, 32)
			for i := 0; i < 6; i++ {
				g.Op("new 1 0")
				g.Op("file %s data %s", hx("alice"), hx(entry(k0)+"\n"))
				g.Op("badlogin %s", []string{"unrel", "othertype"}[i%2])
				g.Op("badlogin %s", []string{"othertype", "unrel"}[i%2])
				g.Op("login %s %x", hx("alice"), k0)
			}
		}, Run: runSess},
	})
}

// ---------------------------------------------------------------- generator

type pool struct {
	r    *Rng
	keys [][]byte // keys that clients present
}

func newPool(r *Rng, n int) *pool {
	p := &pool{r: r}
	for i := 0; i < n; i++ {
		if i > 0 && r.Chance(1, 2) {
			p.keys = append(p.keys, nearKey(r, p.keys[r.Intn(i)]))
			continue
		}
		p.keys = append(p.keys, r.Bytes(32))
	}
	return p
}

// nearKey is a different key that a careless comparison takes for k: one byte changed (anywhere, the
// first, the last), two bytes changed so that the differences cancel in a sum (0x80+0x80, d+(256-d)) or
// in an exclusive-or, two bytes exchanged, the key reversed, one half kept
func nearKey(r *Rng, k []byte) []byte {
	o := append([]byte(nil), k...)
	i, j := r.Intn(32), r.Intn(31)
	if j >= i {
		j++
	}
	d := byte(1 + r.Intn(255))
	switch r.Intn(9) {
	case 0:
		o[i] ^= d
	case 1:
		o[0] ^= d
	case 2:
		o[31] ^= d
	case 3:
		o[i] ^= 0x80
		o[j] ^= 0x80
	case 4:
		o[i] ^= d
		o[j] ^= byte(256 - int(d))
	case 5:
		o[i] ^= d
		o[j] ^= d
	case 6:
		o[i], o[j] = o[j], o[i]
	case 7:
		for a, b := 0, 31; a < b; a, b = a+1, b-1 {
			o[a], o[b] = o[b], o[a]
		}
	default:
		copy(o[16*r.Intn(2):], r.Bytes(16))
	}
	if bytes.Equal(o, k) {
		o[i] ^= 1
	}
	return o
}

func entry(k []byte) string {
	return keys.DHPublicKeyPrefix + base64.StdEncoding.EncodeToString(k)
}

var spaces = []string{" ", "\t", "\v", "\f", "\r", "\u00a0", "\u0085", "\u1680", "\u2000", "\u2003", "\u200a",
	"\u2028", "\u2029", "\u202f", "\u205f", "\u3000"}

// things that look like spaces to a careless reader of the Unicode tables, and broken encodings
var notSpaces = []string{"\u200b", "\u180e", "\ufeff", "\u2060", "\xc2", "\xa0", "\xe2\x80", "\x80\x80", "\xe3\x80\x81",
	"\xc0\xa0", "\xe0\x80\xa0", "\x00", "\x1f", "\xe2\x80\x8b", "\xe2\x80\xb0", "\xc2\x86"}

func (p *pool) ws() string {
	var b strings.Builder
	for n := 1 + p.r.Intn(3); n > 0; n-- {
		b.WriteString(Pick(p.r, spaces))
	}
	return b.String()
}

// goodLine is a line that core.ParseAuthorizedKeys must accept (or skip)
func (p *pool) goodLine() string {
	r := p.r
	switch r.Intn(12) {
	case 0:
		return ""
	case 1:
		return p.ws()
	case 2, 3:
		return p.ws() + entry(Pick(r, p.keys)) + p.ws()
	case 4:
		return entry(r.Bytes(32)) // somebody else's key
	case 5:
		// base64 ignores \r inside the text
		e := entry(Pick(r, p.keys))
		i := len(keys.DHPublicKeyPrefix) + r.Intn(len(e)-len(keys.DHPublicKeyPrefix)+1)
		return e[:i] + "\r" + e[i:]
	case 6:
		// non-canonical final symbol: the two unused low bits set (non-strict decoding ignores them)
		e := []byte(entry(Pick(r, p.keys)))
		const alpha = "ABCDEFGHIJKLMNOPQRSTUVWXYZabcdefghijklmnopqrstuvwxyz0123456789+/"
		i := strings.IndexByte(alpha, e[len(e)-2])
		e[len(e)-2] = alpha[(i&^3)|(1+r.Intn(3))]
		return string(e)
	default:
		return entry(Pick(r, p.keys))
	}
}

// badLine is one mutation away from an entry, or plain junk
func (p *pool) badLine() string {
	r := p.r
	k := Pick(r, p.keys)
	e := entry(k)
	pre := keys.DHPublicKeyPrefix
	switch r.Intn(22) {
	case 0:
		return "# " + e
	case 1:
		return "#"
	case 2:
		return e[:len(e)-1-r.Intn(6)] // truncated base64
	case 3:
		return e + "=" // over-padded
	case 4:
		return e + "=="
	case 5:
		return strings.TrimRight(e, "=") // padding missing
	case 6:
		return keys.SigningPublicKeyPrefix + e[len(pre):]
	case 7:
		return "hop-dh-v2-" + e[len(pre):]
	case 8:
		return "Hop-dh-v1-" + e[len(pre):]
	case 9:
		return e[len(pre):] // no prefix
	case 10:
		return pre + base64.StdEncoding.EncodeToString(k[:31-r.Intn(3)])
	case 11:
		return pre + base64.StdEncoding.EncodeToString(append(append([]byte{}, k...), r.Bytes(1+r.Intn(3))...))
	case 12:
		i := len(pre) + r.Intn(len(e)-len(pre))
		return e[:i] + " " + e[i:] // embedded blank
	case 13:
		return e + " user@host" // ssh-style comment
	case 14:
		return pre + base64.URLEncoding.EncodeToString(bytes.Repeat([]byte{0xfb, 0xff}, 16))
	case 15:
		return pre + base64.RawStdEncoding.EncodeToString(k) + "=x"
	case 16:
		i := len(pre) + r.Intn(len(e)-len(pre))
		return e[:i] + string(rune(33+r.Intn(15))) + e[i+1:] // one symbol outside/inside the alphabet
	case 17:
		return Pick(r, notSpaces) + e
	case 18:
		return e + Pick(r, notSpaces)
	case 19:
		return pre
	case 20:
		return pre[:r.Intn(len(pre))]
	default:
		return string(r.Bytes(1 + r.Intn(40)))
	}
}

func (p *pool) join(lines []string) []byte {
	r := p.r
	var b bytes.Buffer
	style := r.Intn(8)
	for i, l := range lines {
		b.WriteString(l)
		last := i == len(lines)-1
		switch {
		case last && r.Chance(1, 3):
			// no final newline
		case style == 0:
			b.WriteString("\r\n")
		case style == 1 && r.Chance(1, 2):
			b.WriteString("\r\n")
		case style == 2 && r.Chance(1, 4):
			// entries concatenated without a newline, as the e2e test helper writes them
		case style == 3 && r.Chance(1, 6):
			b.WriteString("\n\n")
		case style == 4 && r.Chance(1, 6):
			b.WriteString("\r")
		default:
			b.WriteString("\n")
		}
	}
	return b.Bytes()
}

// file: 45% only acceptable lines, 35% exactly one malformed line, 10% several, 10% degenerate
func (p *pool) file(maxLines int) []byte {
	r := p.r
	n := r.Intn(maxLines + 1)
	var lines []string
	for i := 0; i < n; i++ {
		lines = append(lines, p.goodLine())
	}
	c := r.Intn(100)
	switch {
	case c < 45:
	case c < 80:
		i := r.Intn(len(lines) + 1)
		lines = append(lines[:i], append([]string{p.badLine()}, lines[i:]...)...)
	case c < 90:
		for k := 1 + r.Intn(3); k > 0; k-- {
			i := r.Intn(len(lines) + 1)
			lines = append(lines[:i], append([]string{p.badLine()}, lines[i:]...)...)
		}
	case c < 93:
		return nil
	case c < 96:
		return r.Bytes(r.Intn(200))
	case c < 98:
		return []byte(strings.Repeat("\n", r.Intn(5)) + strings.Repeat(" ", r.Intn(4)))
	default:
		// a long line around the scanner's 64 KiB token limit, after and before proper entries
		e := entry(Pick(r, p.keys))
		l := 65536 - 2 + r.Intn(5)
		long := e + strings.Repeat(" ", l-len(e))
		if r.Chance(1, 3) {
			long = strings.Repeat("x", l)
		}
		i := r.Intn(len(lines) + 1)
		lines = append(lines[:i], append([]string{long}, lines[i:]...)...)
	}
	return p.join(lines)
}

func genUsers(r *Rng) []string {
	names := []string{"alice", "bob", "carol", "root", "u1"}
	r1 := r.Intn(len(names))
	out := []string{names[r1], names[(r1+1+r.Intn(len(names)-1))%len(names)]}
	if r.Chance(1, 3) {
		out = append(out, "nobody")
	}
	return out
}

func hx(s string) string { return HexOrDash([]byte(s)) }

func gen(g *GenCtx) { genHist(g, 700, 20000) }

// genSess: the same histories, fewer (every login is a real user-auth exchange over tubes)
func genSess(g *GenCtx) { genHist(g, 300, 8000) }

// perPart gives every part of a split run its own random stream
func perPart(g *GenCtx) *Rng {
	if g.Parts > 1 {
		g.R = NewRng(g.R.U64() + uint64(g.Part)*0x9E3779B97F4A7C15)
	}
	return g.R
}

// genRaceRounds: concurrent use of one grant - many rounds of "store a grant (sometimes two), race n
// logins for it".  Whatever the interleaving exactly one login gets the grants.
func genRaceRounds(g *GenCtx, r *Rng, rounds int) {
	k0 := bytes.Repeat([]byte{7}, 32)
	g.Op("new 0 1")
	g.Op("raceuse %s %x 4", hx("alice"), k0)
	for i := 1; i <= rounds; i++ {
		g.Op("addgrant %s %x %d", hx("alice"), k0, i)
		if i%7 == 0 {
			g.Op("addgrant %s %x %d", hx("alice"), k0, rounds+i)
		}
		g.Op("raceuse %s %x %d", hx("alice"), k0, Pick(r, []int{2, 4, 8, 8, 16}))
	}
	g.Op("new 0 0")
	g.Op("raceuse %s %x 4", hx("alice"), k0)
}

// suite C05race (run by C05's and by C07's check): only the races
func genRace(g *GenCtx) {
	r := perPart(g)
	rounds := 2500
	if g.Thorough() {
		rounds = 80000 / g.Parts
	}
	genRaceRounds(g, r, rounds)
}

func genHist(g *GenCtx, nQuick, nThorough int) {
	r := perPart(g)
	// corpus: the smallest fail-open inputs
	k0 := bytes.Repeat([]byte{7}, 32)
	for _, content := range []string{"# comment\n", "garbage", entry(bytes.Repeat([]byte{9}, 32)) + "\nx\n"} {
		g.Op("new 1 0")
		g.Op("file %s data %s", hx("alice"), hx(content))
		g.Op("authkey %s %x", hx("alice"), k0)
		g.Op("login %s %x", hx("alice"), k0)
	}
	genRaceRounds(g, r, 300)
	n := nQuick
	maxLines := 8
	if g.Thorough() {
		n = nThorough / g.Parts
		maxLines = 40
	}
	for c := 0; c < n; c++ {
		p := newPool(r, 2+r.Intn(4))
		users := genUsers(r)
		ak, ag := r.Intn(2), 0
		if r.Chance(3, 5) {
			ag = 1
		}
		g.Op("new %d %d", ak, ag)
		if r.Chance(1, 3) {
			// the server account's own file lists every key of the pool
			var all []byte
			for _, k := range p.keys {
				all = append(all, []byte(entry(k)+"\n")...)
			}
			g.Op("srvfile %s", HexOrDash(all))
		}
		setFile := func(u string) {
			switch x := r.Intn(20); {
			case x == 0:
				g.Op("file %s nouser", hx(u))
			case x <= 2:
				g.Op("file %s missing", hx(u))
			case x == 3:
				g.Op("file %s dir", hx(u))
			default:
				ml := maxLines
				if r.Chance(1, 2) {
					ml = 3
				}
				g.Op("file %s data %s", hx(u), HexOrDash(p.file(ml)))
			}
		}
		for _, u := range users {
			if u != "nobody" {
				setFile(u)
			}
		}
		next := 1
		if r.Chance(1, 12) {
			g.Op("badlogin %s", Pick(r, []string{"unrel", "othertype"}))
		}
		for ops := 3 + r.Intn(10); ops > 0; ops-- {
			u := Pick(r, users)
			k := Pick(r, p.keys)
			switch x := r.Intn(20); {
			case x < 5:
				g.Op("authkey %s %x", hx(u), k)
			case x < 11:
				g.Op("login %s %x", hx(u), k)
			case x < 15:
				g.Op("addgrant %s %x %d", hx(u), k, next)
				next++
				if r.Chance(1, 3) { // a second grant for the same pair, or the same key for another user
					g.Op("addgrant %s %x %d", hx(Pick(r, users)), k, next)
					next++
				}
			case x < 17:
				g.Op("usegrant %s %x", hx(u), k)
			case x < 19:
				g.Op("inset %x", k)
			default:
				setFile(u)
			}
		}
		// final sweep: every user with every key, twice (the second login shows consumption)
		if r.Chance(1, 2) {
			for _, u := range users {
				for _, k := range p.keys {
					g.Op("login %s %x", hx(u), k)
				}
			}
			u, k := Pick(r, users), Pick(r, p.keys)
			g.Op("login %s %x", hx(u), k)
			g.Op("inset %x", k)
		}
	}
	// malformed operation lines
	g.Op("new 1 1")
	g.Op("login %s 0102", hx("alice"))
	g.Op("authkey zz %x", k0)
	g.Op("addgrant %s %x x", hx("alice"), k0)
	g.Op("file %s data 0", hx("alice"))
	g.Op("file %s weird", hx("alice"))
	g.Op("frobnicate")
}

func genParse(g *GenCtx) {
	r := perPart(g)
	for _, s := range []string{"", "\n", "# c\n", "hop-dh-v1-", "hop-dh-v1-\n", "\xc2\x85", "\xe2\x80\x80x\xe3\x80\x80", " \xa0"} {
		g.Op("parse %s", hx(s))
		g.Op("trim %s", hx(s))
		g.Op("lines %s", hx(s))
		g.Op("key %s", hx(s))
	}
	n, maxLines := 4000, 8
	if g.Thorough() {
		n, maxLines = 300000/g.Parts, 40
	}
	for c := 0; c < n; c++ {
		p := newPool(r, 1+r.Intn(3))
		ml := maxLines
		if r.Chance(1, 2) {
			ml = 3
		}
		f := p.file(ml)
		g.Op("parse %s", HexOrDash(f))
		if len(f) < 70000 && r.Chance(1, 4) {
			g.Op("lines %s", HexOrDash(f))
		}
		var l string
		if r.Chance(1, 2) {
			l = p.goodLine()
		} else {
			l = p.badLine()
		}
		g.Op("key %s", hx(l))
		if r.Chance(1, 3) {
			g.Op("key %s", hx(strings.TrimSpace(l)))
		}
		// TrimSpace: spaces, near-spaces and broken UTF-8 on both sides of a short core
		var t strings.Builder
		for k := r.Intn(4); k > 0; k-- {
			if r.Chance(3, 4) {
				t.WriteString(Pick(r, spaces))
			} else {
				t.WriteString(Pick(r, notSpaces))
			}
		}
		t.WriteString(string(r.Bytes(r.Intn(3))))
		for k := r.Intn(4); k > 0; k-- {
			if r.Chance(3, 4) {
				t.WriteString(Pick(r, spaces))
			} else {
				t.WriteString(Pick(r, notSpaces))
			}
		}
		g.Op("trim %s", hx(t.String()))
	}
	g.Op("parse zz")
	g.Op("key")
	g.Op("trim 1")
}

// ---------------------------------------------------------------- runner

type world struct {
	cfg    *config.ServerConfig
	ks     *authkeys.SyncAuthKeySet
	srv    *hopserver.HopServer
	fsys   fstest.MapFS
	exists map[string]bool
}

func home(u string) string { return "home/u" + fmt.Sprintf("%x", u) }

func newWorld(ak, ag bool) *world {
	w := &world{cfg: &config.ServerConfig{}, ks: authkeys.NewSyncAuthKeySet(), fsys: fstest.MapFS{}, exists: map[string]bool{}}
	w.cfg.EnableAuthorizedKeys = ak
	w.cfg.EnableAuthgrants = ag
	w.cfg.DataTimeout = 30 * time.Second
	srv, err := hopserver.NewHopServerExt(nil, w.cfg, w.ks)
	if err != nil {
		panic(err)
	}
	srv.SetFSystem(w.fsys)
	w.srv = srv
	thunks.LookupUser = func(username string) (*etcpwdparse.EtcPasswdEntry, error) {
		if !w.exists[username] {
			return nil, thunks.ErrUserNotFound
		}
		ent, err := etcpwdparse.ParsePasswdLine(fmt.Sprintf("u%x:x:1000:1000:Test User:/%s:/bin/sh", username, home(username)))
		return &ent, err
	}
	return w
}

func (w *world) akPath(u string) string { return home(u) + "/.hop/authorized_keys" }

func key32(s string) (k keys.DHPublicKey, ok bool) {
	b, ok := Unhex(s)
	if !ok || len(b) != 32 {
		return k, false
	}
	copy(k[:], b)
	return k, true
}

func grantIDs(ags []authgrants.Authgrant) string {
	var ids []string
	for _, a := range ags {
		ids = append(ids, a.AssociatedData.CommandGrantData.Cmd)
	}
	return strings.Join(ids, ",")
}

func run(in *bufio.Scanner, out *bufio.Writer) { runWith(in, out, false) }

// runSess answers `login` through the real hopSession.checkAuthorization: a client muxer opens a
// user-auth tube over an in-memory message connection and sends the user name, the server side runs
// checkAuthorization on a session whose transport handle reports the key as the authenticated
// client certificate; the confirmation byte the client sees must agree with the method's result.
func runSess(in *bufio.Scanner, out *bufio.Writer) { runWith(in, out, true) }

// ---- in-memory transport.MsgConn pair

type memEnd struct {
	in     chan []byte
	peer   *memEnd
	closed chan struct{}
	once   sync.Once
	mu     sync.Mutex
	rdl    time.Time
}

type timeoutErr struct{}

func (timeoutErr) Error() string   { return "i/o timeout" }
func (timeoutErr) Timeout() bool   { return true }
func (timeoutErr) Temporary() bool { return true }
func (timeoutErr) Unwrap() error   { return os.ErrDeadlineExceeded }

func memPair() (*memEnd, *memEnd) {
	a := &memEnd{in: make(chan []byte, 4096), closed: make(chan struct{})}
	b := &memEnd{in: make(chan []byte, 4096), closed: make(chan struct{})}
	a.peer, b.peer = b, a
	return a, b
}

func (c *memEnd) ReadMsg(b []byte) (int, error) {
	c.mu.Lock()
	dl := c.rdl
	c.mu.Unlock()
	var tc <-chan time.Time
	if !dl.IsZero() {
		t := time.NewTimer(time.Until(dl))
		defer t.Stop()
		tc = t.C
	}
	select {
	case m := <-c.in:
		return copy(b, m), nil
	case <-c.closed:
		return 0, net.ErrClosed
	case <-tc:
		return 0, timeoutErr{}
	}
}

func (c *memEnd) WriteMsg(b []byte) error {
	m := append([]byte{}, b...)
	select {
	case <-c.closed:
		return net.ErrClosed
	default:
	}
	select {
	case c.peer.in <- m:
	case <-c.peer.closed: // nobody listens any more: the datagram is lost
	case <-c.closed:
		return net.ErrClosed
	}
	return nil
}

func (c *memEnd) Read(b []byte) (int, error)  { return c.ReadMsg(b) }
func (c *memEnd) Write(b []byte) (int, error) { return len(b), c.WriteMsg(b) }
func (c *memEnd) Close() error                { c.once.Do(func() { close(c.closed) }); return nil }
func (c *memEnd) LocalAddr() net.Addr         { return &net.UDPAddr{IP: net.IPv4(127, 0, 0, 1), Port: 1} }
func (c *memEnd) RemoteAddr() net.Addr        { return &net.UDPAddr{IP: net.IPv4(127, 0, 0, 1), Port: 2} }
func (c *memEnd) SetDeadline(t time.Time) error {
	return c.SetReadDeadline(t)
}
func (c *memEnd) SetReadDeadline(t time.Time) error {
	c.mu.Lock()
	c.rdl = t
	c.mu.Unlock()
	return nil
}
func (c *memEnd) SetWriteDeadline(time.Time) error { return nil }

func (w *world) sessionLogin(user string, k keys.DHPublicKey) string {
	a, b := memPair()
	type sres struct {
		ok    bool
		user  string
		grant bool
		acts  []authgrants.Authgrant
	}
	ch := make(chan sres, 1)
	go func() {
		ok, u, g, acts := w.srv.VerifCheckAuthorization(b, &certs.Certificate{Type: certs.Leaf, PublicKey: k})
		ch <- sres{ok, u, g, acts}
	}()
	cmux := tubes.Client(a, &tubes.Config{Timeout: 30 * time.Second, Log: logrus.WithField("muxer", "verif-client")})
	defer func() { go cmux.Stop() }()
	t, err := cmux.CreateReliableTube(common.UserAuthTube)
	if err != nil {
		return "client-tube-failed"
	}
	conf := make(chan bool, 1)
	go func() { conf <- userauth.RequestAuthorization(t, user); t.Close() }()
	var r sres
	select {
	case r = <-ch:
	case <-time.After(60 * time.Second):
		return "server-timeout"
	}
	var confirmed bool
	select {
	case confirmed = <-conf:
	case <-time.After(60 * time.Second):
		return "client-timeout"
	}
	switch {
	case r.ok != confirmed:
		return fmt.Sprintf("mismatch-server-%v-client-%v", r.ok, confirmed)
	case !r.ok:
		return "reject"
	case r.user != user:
		return "wrong-user"
	case r.grant:
		return "grant " + grantIDs(r.acts)
	}
	return "listed"
}

// sessionBadLogin: the client's first tube is not a reliable user-authorization tube (kind `unrel`: an
// UNRELIABLE tube of that type; `othertype`: a reliable tube of another type).  checkAuthorization refuses.
func (w *world) sessionBadLogin(kind string) string {
	a, b := memPair()
	ch := make(chan bool, 1)
	go func() {
		ok, _, _, _ := w.srv.VerifCheckAuthorization(b, &certs.Certificate{Type: certs.Leaf})
		ch <- ok
	}()
	cmux := tubes.Client(a, &tubes.Config{Timeout: 30 * time.Second, Log: logrus.WithField("muxer", "verif-client")})
	defer func() { go cmux.Stop() }()
	var err error
	if kind == "unrel" {
		var u *tubes.Unreliable
		u, err = cmux.CreateUnreliableTube(common.UserAuthTube)
		if err == nil {
			go u.Write([]byte{0, 1, 'x'})
		}
	} else {
		_, err = cmux.CreateReliableTube(common.ExecTube)
	}
	if err != nil {
		return "client-tube-failed"
	}
	select {
	case ok := <-ch:
		if ok {
			return "admitted"
		}
		return "reject"
	case <-time.After(60 * time.Second):
		return "server-timeout"
	}
}

var _ io.Reader = (*memEnd)(nil)

func runWith(in *bufio.Scanner, out *bufio.Writer, session bool) {
	w := newWorld(false, false)
	for in.Scan() {
		f := strings.Fields(in.Text())
		res := "bad-op"
		switch {
		case len(f) == 3 && f[0] == "new" && (f[1] == "0" || f[1] == "1") && (f[2] == "0" || f[2] == "1"):
			w = newWorld(f[1] == "1", f[2] == "1")
			res = "ok"
		case (len(f) == 3 || len(f) == 4) && f[0] == "file":
			ub, ok := Unhex(f[1])
			if !ok {
				break
			}
			u := string(ub)
			p := w.akPath(u)
			switch {
			case len(f) == 3 && f[2] == "nouser":
				delete(w.exists, u)
				delete(w.fsys, p)
				res = "ok"
			case len(f) == 3 && f[2] == "missing":
				w.exists[u] = true
				delete(w.fsys, p)
				res = "ok"
			case len(f) == 3 && f[2] == "dir":
				w.exists[u] = true
				w.fsys[p] = &fstest.MapFile{Mode: fs.ModeDir | 0700}
				res = "ok"
			case len(f) == 4 && f[2] == "data":
				d, ok := Unhex(f[3])
				if !ok {
					break
				}
				w.exists[u] = true
				w.fsys[p] = &fstest.MapFile{Data: d, Mode: 0600}
				res = "ok"
			}
		case len(f) == 2 && f[0] == "badlogin" && (f[1] == "unrel" || f[1] == "othertype"):
			res = "reject"
			if session {
				res = Guard(func() string { return w.sessionBadLogin(f[1]) })
			}
		case len(f) == 2 && f[0] == "srvfile":
			// the authorized_keys file of the account the SERVER runs as (config.UserDirectory()): it
			// authorizes nobody but that account - in particular not a user name without an account
			d, ok := Unhex(f[1])
			if !ok {
				break
			}
			p := core.AuthorizedKeysPath(config.UserDirectory())
			if len(p) > 1 {
				w.fsys[p[1:]] = &fstest.MapFile{Data: d, Mode: 0600}
			}
			res = "ok"
		case len(f) == 3 && f[0] == "authkey":
			u, ok := Unhex(f[1])
			k, ok2 := key32(f[2])
			if !ok || !ok2 {
				break
			}
			res = Guard(func() string {
				if err := w.srv.AuthorizeKey(string(u), k); err != nil {
					return "err"
				}
				return "ok"
			})
		case len(f) == 4 && f[0] == "addgrant":
			u, ok := Unhex(f[1])
			k, ok2 := key32(f[2])
			id, err := strconv.ParseUint(f[3], 10, 63)
			if !ok || !ok2 || err != nil {
				break
			}
			res = Guard(func() string {
				intent := &authgrants.Intent{
					GrantType:      authgrants.Command,
					TargetUsername: string(u),
					DelegateCert:   certs.Certificate{Type: certs.Leaf, PublicKey: k},
					AssociatedData: authgrants.GrantData{CommandGrantData: authgrants.CommandGrantData{Cmd: strconv.FormatUint(id, 10)}},
				}
				if err := w.srv.AddAuthGrant(intent); err != nil {
					return "err"
				}
				return "ok"
			})
		case len(f) == 3 && f[0] == "usegrant":
			u, ok := Unhex(f[1])
			k, ok2 := key32(f[2])
			if !ok || !ok2 {
				break
			}
			res = Guard(func() string {
				ags, err := w.srv.AuthorizeKeyAuthGrant(string(u), k)
				if err != nil {
					return "err"
				}
				return "ok " + grantIDs(ags)
			})
		case len(f) == 4 && f[0] == "raceuse":
			// n concurrent logins with the same delegate key for the same user: whatever the
			// interleaving, the stored grants go to exactly one of them (the others are refused)
			u, ok := Unhex(f[1])
			k, ok2 := key32(f[2])
			n, err := strconv.Atoi(f[3])
			if !ok || !ok2 || err != nil || n < 2 || n > 64 {
				break
			}
			res = Guard(func() string {
				var start, done sync.WaitGroup
				start.Add(1)
				got := make([][]authgrants.Authgrant, n)
				won := make([]bool, n)
				for i := 0; i < n; i++ {
					done.Add(1)
					go func(i int) {
						defer done.Done()
						start.Wait()
						ags, err := w.srv.AuthorizeKeyAuthGrant(string(u), k)
						got[i], won[i] = ags, err == nil
					}(i)
				}
				start.Done()
				done.Wait()
				wins := 0
				var all []string
				for i := range got {
					if won[i] {
						wins++
						for _, a := range got[i] {
							all = append(all, a.AssociatedData.CommandGrantData.Cmd)
						}
					}
				}
				if wins == 0 {
					return "wins=0 -"
				}
				// the single winner's grants in the order it got them; several winners: all of them
				return fmt.Sprintf("wins=%d %s", wins, strings.Join(all, ","))
			})
		case len(f) == 3 && f[0] == "login":
			u, ok := Unhex(f[1])
			k, ok2 := key32(f[2])
			if !ok || !ok2 {
				break
			}
			if session {
				res = Guard(func() string { return w.sessionLogin(string(u), k) })
				break
			}
			// the decision of hopSession.checkAuthorization (hopserver/session.go) replayed from the two
			// public entry points (suite C05sess runs the method itself): AuthorizeKey first, on error
			// AuthorizeKeyAuthGrant iff enabled
			res = Guard(func() string {
				if err := w.srv.AuthorizeKey(string(u), k); err == nil {
					return "listed"
				}
				if !w.cfg.EnableAuthgrants {
					return "reject"
				}
				ags, err := w.srv.AuthorizeKeyAuthGrant(string(u), k)
				if err != nil {
					return "reject"
				}
				return "grant " + grantIDs(ags)
			})
		case len(f) == 2 && f[0] == "inset":
			k, ok := key32(f[1])
			if !ok {
				break
			}
			res = Guard(func() string {
				if w.ks.VerifyLeaf(&certs.Certificate{Type: certs.Leaf, PublicKey: k}, certs.VerifyOptions{}) == nil {
					return "1"
				}
				return "0"
			})
		}
		out.WriteString(res)
		out.WriteByte('\n')
	}
}

func hexList(bs [][]byte) string {
	if len(bs) == 0 {
		return "."
	}
	var s []string
	for _, b := range bs {
		s = append(s, HexOrDash(b))
	}
	return strings.Join(s, ",")
}

func runParse(in *bufio.Scanner, out *bufio.Writer) {
	for in.Scan() {
		f := strings.Fields(in.Text())
		res := "bad-op"
		if len(f) == 2 {
			if d, ok := Unhex(f[1]); ok {
				switch f[0] {
				case "parse":
					res = Guard(func() string {
						aks, err := core.ParseAuthorizedKeys(bytes.NewReader(d))
						if err != nil {
							return "err"
						}
						var l [][]byte
						for i := range aks {
							l = append(l, aks[i][:])
						}
						return "ok " + hexList(l)
					})
				case "key":
					res = Guard(func() string {
						k, err := keys.ParseDHPublicKey(string(d))
						if err != nil {
							return "err"
						}
						return "ok " + HexOrDash(k[:])
					})
				case "trim":
					res = HexOrDash([]byte(strings.TrimSpace(string(d))))
				case "lines":
					sc := bufio.NewScanner(bytes.NewReader(d))
					var l [][]byte
					for sc.Scan() {
						l = append(l, []byte(sc.Text()))
					}
					res = hexList(l)
				}
			}
		}
		out.WriteString(res)
		out.WriteByte('\n')
	}
}
