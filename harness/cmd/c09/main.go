package main

import (
	"bufio"
	"bytes"
	"strings"

	. "hopverif/hvlib"
	"hopverif/muxh"
)

// C09 — tubes are isolated from each other and from earlier tubes with the same id.
//
// Suite C09 (diff): a real Muxer on a scripted MsgConn; histories of remote opens (REQ), local
// creations (+RESP), interleaved traffic on up to 6 tubes, reads, peer FINs, reaps (the harness
// plays the peer's half of the close handshake and waits for the reaper) and re-opens of the same
// id; concurrent Create* calls; every answer is compared with the Lean muxer model.
// Suite C09late (monitor): histories containing datagrams of an incarnation that has been reaped
// (marked `late`); the Lean monitor evaluates the Spec "late datagrams are unobservable" by
// running the model without them.

func main() {
	Main(map[string]*Suite{
		"C09":       {Gen: genC09, Run: muxh.RunIsolated("C09worker", 32)},
		"C09worker": {Gen: func(*GenCtx) {}, Run: muxh.Exec},
		"C09late":   {Gen: genLate, Run: runLate},
	})
}

type tube struct {
	rel     bool
	id      byte
	ty      byte
	local   bool
	inited  bool
	held    bool
	next    uint32 // next honest frame number
	fin     bool   // peer FIN sent
	writes  int
	pending [][]byte // reliable: frames sent ahead of order, by offset from next
}

type hist struct {
	g      *GenCtx
	parity int
	live   []*tube
	queue  []*tube
	opens  map[[2]int]int // re-open count per key
}

func letter(rel bool) string {
	if rel {
		return "r"
	}
	return "u"
}

func relFlag(rel bool) string {
	if rel {
		return "L"
	}
	return ""
}

func (h *hist) raw(b []byte) { h.g.Op("raw %s", HexOrDash(b)) }

func (h *hist) find(rel bool, id byte) *tube {
	for _, t := range h.live {
		if t.rel == rel && t.id == id {
			return t
		}
	}
	return nil
}

// reservation closes a reliable tube with an identifier of the muxer's parity and, while the
// reaper still keeps it in the map, lets stragglers of the old tube arrive (data, a REQ
// retransmission, a FIN), creates a tube (which must get another identifier) and polls Accept;
// then waits for the reaper.  Few operations: they must fit into half the reservation time.
func (h *hist) reservation(t *tube) {
	g := h.g
	g.Op("shut r %d", t.id)
	for i := 0; i < 1+g.R.Intn(3); i++ {
		switch g.R.Intn(5) {
		case 0:
			h.raw(muxh.Frame(t.id, "L", 1, t.next, g.R.Bytes(1+g.R.Intn(4))))
		case 1:
			h.raw(muxh.Frame(t.id, "L", 1, 1, g.R.Bytes(1+g.R.Intn(4))))
		case 2:
			h.raw(muxh.Init(t.id, "QLA", byte(1+g.R.Intn(7))))
		case 3:
			h.raw(muxh.Frame(t.id, "LF", 0, t.next, nil))
		case 4:
			g.Op("create r %d", 1+g.R.Intn(7))
			// bookkeeping as in createLocal: the reserved identifier is still taken
			for c := h.parity; c < 256; c += 2 {
				if h.find(true, byte(c)) == nil {
					h.live = append(h.live, &tube{rel: true, id: byte(c), ty: 1, local: true, held: true, next: 1})
					break
				}
			}
		}
	}
	g.Op("accept")
	if len(h.queue) > 0 {
		h.queue[0].held = true
		h.queue = h.queue[1:]
	}
	g.Op("has r %d", t.id)
	g.Op("read r %d 8", t.id)
	g.Op("reap r %d", t.id)
	h.remove(t)
	g.Op("has r %d", t.id)
}

func (h *hist) reqFlags(rel bool) string {
	if rel {
		return "QLA"
	}
	return "Q"
}

func (h *hist) openRemote() {
	rel := h.g.R.Chance(2, 3)
	id := byte(h.g.R.Intn(6)) // few ids: reuse and both parities are common
	if t := h.find(rel, id); t != nil {
		// a REQ for a live tube is a retransmission: no second offer
		h.raw(muxh.Init(id, h.reqFlags(rel), byte(h.g.R.Intn(8))))
		t.inited = true
		return
	}
	k := [2]int{0, int(id)}
	if rel {
		k[0] = 1
	}
	if h.opens[k] >= 3 || len(h.live) >= 6 || len(h.queue) >= 100 {
		return
	}
	h.opens[k]++
	t := &tube{rel: rel, id: id, ty: byte(1 + h.g.R.Intn(7)), inited: true, next: 1}
	h.raw(muxh.Init(id, h.reqFlags(rel), t.ty))
	h.live = append(h.live, t)
	h.queue = append(h.queue, t)
	if h.g.R.Chance(1, 4) {
		h.raw(muxh.Init(id, h.reqFlags(rel), t.ty)) // duplicate REQ
	}
}

func (h *hist) accept() {
	h.g.Op("accept")
	if len(h.queue) > 0 {
		h.queue[0].held = true
		h.queue = h.queue[1:]
	}
}

func (h *hist) createLocal() {
	rel := h.g.R.Chance(2, 3)
	if len(h.live) >= 6 {
		return
	}
	id := -1
	for c := h.parity; c < 256; c += 2 {
		if h.find(rel, byte(c)) == nil {
			id = c
			break
		}
	}
	if id < 0 {
		return
	}
	ty := byte(1 + h.g.R.Intn(7))
	h.g.Op("create %s %d", letter(rel), ty)
	t := &tube{rel: rel, id: byte(id), ty: ty, local: true, held: true, next: 1}
	h.live = append(h.live, t)
}

func (h *hist) respFlags(rel bool) string {
	if rel {
		return "PLA"
	}
	return "P"
}

func (h *hist) data(t *tube) {
	if !t.inited && h.g.R.Chance(1, 2) {
		h.raw(muxh.Init(t.id, h.respFlags(t.rel), t.ty))
		t.inited = true
		return
	}
	d := h.g.R.Bytes(1 + h.g.R.Intn(5))
	if !t.rel {
		h.raw(muxh.Frame(t.id, "-", 0, uint32(h.g.R.Intn(50)), d))
		return
	}
	if t.fin {
		// retransmission of something old
		if t.next > 1 {
			h.raw(muxh.Frame(t.id, "L", 1, t.next-1, nil))
		}
		return
	}
	switch h.g.R.Intn(5) {
	case 0: // two frames swapped
		d2 := h.g.R.Bytes(1 + h.g.R.Intn(5))
		h.raw(muxh.Frame(t.id, "L", 1, t.next+1, d2))
		h.raw(muxh.Frame(t.id, "L", 1, t.next, d))
		t.next += 2
	case 1: // duplicate
		h.raw(muxh.Frame(t.id, "L", 1, t.next, d))
		h.raw(muxh.Frame(t.id, "L", 1, t.next, d))
		t.next++
	default:
		h.raw(muxh.Frame(t.id, "L", 1, t.next, d))
		t.next++
	}
}

func (h *hist) remove(t *tube) {
	for i, x := range h.live {
		if x == t {
			h.live = append(h.live[:i], h.live[i+1:]...)
			return
		}
	}
}

func genHistory(g *GenCtx) {
	h := &hist{g: g, parity: g.R.Intn(2), opens: map[[2]int]int{}}
	g.Op("new %d", h.parity)
	steps := 15 + g.R.Intn(30)
	reaps := 0
	for s := 0; s < steps; s++ {
		var t *tube
		if len(h.live) > 0 {
			t = Pick(g.R, h.live)
		}
		switch x := g.R.Intn(20); {
		case x < 3:
			h.openRemote()
		case x < 5:
			h.accept()
		case x < 6:
			h.createLocal()
		case x < 12 && t != nil:
			h.data(t)
		case x < 15 && t != nil:
			g.Op("read %s %d %d", letter(t.rel), t.id, Pick(g.R, []int{1, 2, 3, 64}))
		case x < 16 && t != nil && t.held && t.inited && t.writes < 3:
			t.writes++
			g.Op("wr %s %d %s", letter(t.rel), t.id, HexOrDash(g.R.Bytes(1+g.R.Intn(6))))
		case x < 17 && t != nil && t.rel && t.inited && !t.fin:
			h.raw(muxh.Frame(t.id, "LF", 0, t.next, nil)) // peer closes its direction
			t.next++
			t.fin = true
		case x < 19 && t != nil && reaps < 4 && t.rel && int(t.id)%2 == h.parity && t.held && t.inited && g.R.Chance(1, 2):
			reaps++
			h.reservation(t)
		case x < 19 && t != nil && reaps < 4:
			g.Op("read %s %d 64", letter(t.rel), t.id)
			g.Op("reap %s %d", letter(t.rel), t.id)
			if t.held && (t.inited || !t.rel) {
				h.remove(t)
				reaps++
			}
			g.Op("has %s %d", letter(t.rel), t.id)
		default:
			// a frame for a tube that does not exist (never opened, or reaped)
			id := byte(6 + g.R.Intn(4))
			h.raw(muxh.Frame(id, relFlag(g.R.Chance(1, 2)), 1, 1, g.R.Bytes(2)))
		}
	}
	for i := 0; i < 2; i++ {
		h.accept()
	}
	for _, t := range h.live {
		g.Op("read %s %d 64", letter(t.rel), t.id)
	}
	for id := 0; id < 6; id++ {
		g.Op("has r %d", id)
		g.Op("has u %d", id)
	}
}

func genConcurrent(g *GenCtx) {
	p := g.R.Intn(2)
	g.Op("new %d", p)
	// some ids of either parity are taken by the peer first
	for i := 0; i < g.R.Intn(5); i++ {
		rel := g.R.Chance(1, 2)
		fl := "Q"
		if rel {
			fl = "QLA"
		}
		g.Op("raw %s", HexOrDash(muxh.Init(byte(g.R.Intn(8)), fl, 1)))
	}
	for i := 0; i < 1+g.R.Intn(3); i++ {
		g.Op("ccreate %s %d %d", Pick(g.R, []string{"r", "u"}), 1+g.R.Intn(7), Pick(g.R, []int{1, 2, 3, 8, 30, 64, 127, 128, 129}))
	}
	g.Op("create r 1")
	g.Op("create u 1")
	for id := 0; id < 10; id++ {
		g.Op("has r %d", id)
		g.Op("has u %d", id)
	}
	g.Op("has r 254")
	g.Op("has r 255")
}

func genC09(g *GenCtx) {
	// fixed: reuse of an id after reaping, with a retransmitted REQ in between
	g.Op("new 0")
	g.Op("raw %s", HexOrDash(muxh.Init(3, "QLA", 7)))
	g.Op("raw %s", HexOrDash(muxh.Init(3, "QLA", 7)))
	g.Op("accept")
	g.Op("accept")
	g.Op("raw %s", HexOrDash(muxh.Frame(3, "L", 1, 1, []byte("one"))))
	g.Op("raw %s", HexOrDash(muxh.Frame(3, "-", 0, 0, []byte("not for the reliable tube"))))
	g.Op("read r 3 64")
	g.Op("reap r 3")
	g.Op("has r 3")
	g.Op("raw %s", HexOrDash(muxh.Init(3, "Q", 2)))
	g.Op("raw %s", HexOrDash(muxh.Init(3, "QLA", 4)))
	g.Op("accept")
	g.Op("accept")
	g.Op("raw %s", HexOrDash(muxh.Frame(3, "L", 1, 1, []byte("two"))))
	g.Op("raw %s", HexOrDash(muxh.Frame(3, "-", 0, 0, []byte("msg"))))
	g.Op("read r 3 64")
	g.Op("read u 3 64")
	// fixed: a reliable tube this side opened is closed; its identifier stays reserved while the
	// reaper waits (reap answers `early` when it was released sooner), and is free afterwards
	for p := 0; p < 2; p++ {
		g.Op("new %d", p)
		g.Op("create r 2")
		g.Op("raw %s", HexOrDash(muxh.Init(byte(p), "PLA", 2)))
		g.Op("create r 3")
		g.Op("raw %s", HexOrDash(muxh.Init(byte(p+2), "PLA", 3)))
		g.Op("reap r %d", p)
		g.Op("has r %d", p)
		g.Op("create r 4")
		g.Op("has r %d", p)
		g.Op("has r %d", p+2)
	}
	// fixed: the accept queue (128) is full when further tubes are requested: they are refused whole
	// (no tube, no answer), and a later retransmission of the request - after the application has
	// accepted something - opens and offers the tube exactly once
	for _, fl := range []string{"QLA", "Q"} {
		rel := "r"
		if fl == "Q" {
			rel = "u"
		}
		g.Op("new 1")
		for id := 0; id < 131; id++ {
			g.Op("raw %s", HexOrDash(muxh.Init(byte(id), fl, byte(1+id%7))))
		}
		for _, id := range []int{0, 127, 128, 129, 130} {
			g.Op("has %s %d", rel, id)
		}
		g.Op("raw %s", HexOrDash(muxh.Init(129, fl, 3))) // retransmission while the queue is still full
		g.Op("has %s 129", rel)
		for i := 0; i < 3; i++ {
			g.Op("accept")
		}
		g.Op("raw %s", HexOrDash(muxh.Init(129, fl, 3))) // … and after room was made
		g.Op("raw %s", HexOrDash(muxh.Init(129, fl, 3)))
		g.Op("has %s 129", rel)
		for i := 0; i < 128; i++ {
			g.Op("accept")
		}
		g.Op("accept")
		g.Op("has %s 128", rel)
		g.Op("has %s 130", rel)
	}
	// fixed: stragglers during the reservation (the theorem C09_late_in_reservation's witness)
	for p := 0; p < 2; p++ {
		g.Op("new %d", p)
		g.Op("create r 7")
		g.Op("raw %s", HexOrDash(muxh.Init(byte(p), "PLA", 7)))
		g.Op("raw %s", HexOrDash(muxh.Frame(byte(p), "L", 1, 1, []byte("A"))))
		g.Op("read r %d 8", p)
		g.Op("shut r %d", p)
		g.Op("raw %s", HexOrDash(muxh.Frame(byte(p), "L", 1, 1, []byte("A"))))
		g.Op("raw %s", HexOrDash(muxh.Frame(byte(p), "L", 1, 2, []byte("B"))))
		g.Op("raw %s", HexOrDash(muxh.Init(byte(p), "QLA", 7)))
		g.Op("accept")
		g.Op("create r 7")
		g.Op("has r %d", p)
		g.Op("read r %d 8", p)
		g.Op("reap r %d", p)
		g.Op("has r %d", p)
		g.Op("create r 7")
		g.Op("shut r %d", p+1) // not this muxer's parity / no such tube
		g.Op("shut u %d", p)
	}
	nh, nc := 260, 40
	if g.Thorough() {
		nh, nc = 8000/g.Parts, 800/g.Parts
	}
	for i := 0; i < nh; i++ {
		genHistory(g)
	}
	for i := 0; i < nc; i++ {
		genConcurrent(g)
	}
	g.Op("new 1")
	g.Op("reap x 3")
	g.Op("ccreate r 1 0")
	g.Op("frobnicate")
}

// ---------------------------------------------------------------- late datagrams

func genLate(g *GenCtx) {
	n := 6
	if g.Thorough() {
		n = 60 / g.Parts
	}
	for i := 0; i < n; i++ {
		p := g.R.Intn(2)
		id := byte(1 - p + 2*g.R.Intn(3)) // the peer's parity: reaping is immediate
		ty := byte(1 + g.R.Intn(7))
		d := g.R.Bytes(1 + g.R.Intn(4))
		switch i % 4 {
		case 0: // delayed REQ retransmission after the reap
			g.Op("new %d", p)
			g.Op("raw %s", HexOrDash(muxh.Init(id, "QLA", ty)))
			g.Op("accept")
			g.Op("raw %s", HexOrDash(muxh.Frame(id, "L", 1, 1, d)))
			g.Op("read r %d 64", id)
			g.Op("reap r %d", id)
			g.Op("has r %d", id)
			g.Op("late raw %s", HexOrDash(muxh.Init(id, "QLA", ty)))
			g.Op("accept")
			g.Op("has r %d", id)
		case 1: // delayed data frame no. 1 reaches the successor
			g.Op("new %d", p)
			g.Op("raw %s", HexOrDash(muxh.Init(id, "QLA", ty)))
			g.Op("accept")
			g.Op("raw %s", HexOrDash(muxh.Frame(id, "L", 1, 1, d)))
			g.Op("read r %d 64", id)
			g.Op("reap r %d", id)
			g.Op("raw %s", HexOrDash(muxh.Init(id, "QLA", ty+1)))
			g.Op("accept")
			g.Op("late raw %s", HexOrDash(muxh.Frame(id, "L", 1, 1, d)))
			g.Op("read r %d 64", id)
		case 2: // the same on an unreliable tube
			g.Op("new %d", p)
			g.Op("raw %s", HexOrDash(muxh.Init(id, "Q", ty)))
			g.Op("accept")
			g.Op("raw %s", HexOrDash(muxh.Frame(id, "-", 0, 0, d)))
			g.Op("read u %d 64", id)
			g.Op("reap u %d", id)
			g.Op("raw %s", HexOrDash(muxh.Init(id, "Q", ty)))
			g.Op("accept")
			g.Op("late raw %s", HexOrDash(muxh.Frame(id, "-", 0, 1, d)))
			g.Op("read u %d 64", id)
		default: // control: the same history without late datagrams
			g.Op("new %d", p)
			g.Op("raw %s", HexOrDash(muxh.Init(id, "QLA", ty)))
			g.Op("accept")
			g.Op("raw %s", HexOrDash(muxh.Frame(id, "L", 1, 1, d)))
			g.Op("read r %d 64", id)
			g.Op("reap r %d", id)
			g.Op("raw %s", HexOrDash(muxh.Init(id, "QLA", ty)))
			g.Op("accept")
			g.Op("raw %s", HexOrDash(muxh.Frame(id, "L", 1, 1, d)))
			g.Op("read r %d 64", id)
		}
	}
}

// runLate executes the history (late datagrams included — the muxer cannot tell) and prints the
// observed trace `op => result`.
func runLate(in *bufio.Scanner, out *bufio.Writer) {
	var ops, plain []string
	for in.Scan() {
		l := in.Text()
		ops = append(ops, l)
		plain = append(plain, strings.TrimPrefix(l, "late "))
	}
	var res bytes.Buffer
	w := bufio.NewWriter(&res)
	muxh.Exec(bufio.NewScanner(strings.NewReader(strings.Join(plain, "\n")+"\n")), w)
	w.Flush()
	answers := strings.Split(strings.TrimRight(res.String(), "\n"), "\n")
	for i, l := range ops {
		a := "<missing>"
		if i < len(answers) {
			a = answers[i]
		}
		out.WriteString(l + " => " + a + "\n")
	}
}
