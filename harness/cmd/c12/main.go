package main

import (
	"bufio"
	"bytes"
	"crypto/cipher"
	"fmt"
	"os"
	"path/filepath"
	"regexp"
	"runtime/debug"
	"strconv"
	"strings"

	"hop.computer/hop/kravatte"
	. "hopverif/hvlib"
)

// C12 — Kravatte-SANSE.  Cases are SANSE sessions over the cipher.AEAD returned by
// kravatte.NewSANSE (two objects a, b made from one key: what one seals the other opens) and
// programs over a raw kravatte.Kravatte object (Kra / Vatte / Kravatte with the bit-length
// interface).  Every output byte is compared with the Lean model (SANSE over the Lean Kravatte over
// the Lean Keccak-p[1600,6]; key schedule = the specification's k ‖ 1 ‖ 0*).
//
// Each SANSE object is really three objects fed the same calls with different buffer layouts
// (fresh buffers / dst = src[:0], the exact overlap cipher.AEAD allows / dst with a prefix and spare
// capacity); if their results differ, or a caller buffer that must stay intact changed, the
// output line gets the suffix " alias-mismatch".
//
// Built twice by the check: normally (assembly permutation) and with tags purego,appengine.

func main() { Main(map[string]*Suite{"C12": {Gen: gen, Run: run}}) }

func repoDir() string {
	if bi, ok := debug.ReadBuildInfo(); ok {
		for _, d := range bi.Deps {
			if d.Path == "hop.computer/hop" && d.Replace != nil {
				return d.Replace.Path
			}
		}
	}
	if r := os.Getenv("HOP_REPO"); r != "" {
		return r
	}
	return "/repo"
}

// ---------------------------------------------------------------- generator

var keySpread = []int{1, 7, 8, 9, 15, 16, 17, 31, 32, 33, 199}
var lenEdges = []int{0, 1, 2, 31, 32, 33, 199, 200, 201, 399, 400, 401, 599, 600, 601, 1000}

func data(g *GenCtx, n int) []byte {
	switch g.R.Intn(8) {
	case 0:
		return make([]byte, n)
	case 1:
		return bytes.Repeat([]byte{0xff}, n)
	default:
		return g.R.Bytes(n)
	}
}

func pickLen(g *GenCtx) int {
	switch g.R.Intn(8) {
	case 0, 1, 2, 3:
		return Pick(g.R, lenEdges)
	case 4:
		return 200*g.R.Intn(6) + g.R.Intn(3) - 1
	case 5:
		return g.R.Intn(64)
	default:
		return g.R.Intn(1300)
	}
}

func pos(n int) int {
	if n < 0 {
		return 0
	}
	return n
}

var reLine = regexp.MustCompile(`^([\w-]+)\[(\d*)\]:(.*)$`)

func vectors(g *GenCtx) {
	dir := filepath.Join(repoDir(), "kravatte", "testdata")
	dumps := map[string]string{"dumpK": "k", "dumpX": "x", "dumpY": "y", "dumpR": "r", "dumpQ": "q", "dumpO": "o"}
	for _, name := range []string{"xkcp-kravatte.txt", "xkcp.txt", "xkcp-sanse.txt"} {
		raw, err := os.ReadFile(filepath.Join(dir, name))
		if err != nil {
			// the published vectors anchor the model: without them the check must not pass
			fmt.Fprintln(os.Stderr, "cannot read vector file:", err)
			os.Exit(1)
		}
		sanse := strings.Contains(name, "sanse")
		var pt, ad, wrapped, kravatin string
		var script []string
		add := func(format string, a ...any) { script = append(script, fmt.Sprintf(format, a...)) }
		for _, line := range strings.Split(string(raw), "\n") {
			m := reLine.FindStringSubmatch(strings.TrimSpace(line))
			if m == nil {
				continue
			}
			h := strings.ReplaceAll(strings.TrimSpace(m[3]), " ", "")
			nbytes := len(h) / 2
			if h == "" {
				h = "-"
			}
			switch m[1] {
			case "key":
				if sanse {
					add("new sanse %s", h)
				} else {
					add("new kv %s", h)
				}
			case "in":
				add("kra %d 0 %s", 8*nbytes, h)
			case "last":
				add("kra %d 2 %s", 8*nbytes, h)
			case "inbits":
				add("kra %s 2 %s", m[2], h)
			case "out":
				n, _ := strconv.Atoi(m[2])
				add("vatte %d 0 =%s", 8*n, h)
			case "kravatin":
				kravatin = h
			case "kravatout":
				add("kravatte 2 16 %s =%s", kravatin, h)
			case "plaintext":
				pt = h
			case "ad":
				ad = h
			case "wrap":
				wrapped = h
			case "tag":
				add("seal a %s %s =%s%s", ad, pt, strings.TrimPrefix(wrapped, "-"), h)
				add("openl b %s - =%s", ad, pt)
			default:
				if w, ok := dumps[m[1]]; ok && !sanse {
					if w == "o" {
						b, _ := Unhex(h)
						v := 0
						for i := 3; i >= 0; i-- {
							v = v<<8 | int(b[i])
						}
						add("dump o =%d", v)
					} else {
						add("dump %s =%s", w, h)
					}
				}
			}
		}
		g.Op("new ; %s", strings.Join(script, " ; "))
	}
}

func flipByteAt(b []byte, i int, x byte) []byte {
	c := append([]byte{}, b...)
	c[i] ^= x
	return c
}

func gen(g *GenCtx) {
	if g.Parts > 1 {
		// every part gets its own stream (hvlib seeds all parts alike)
		g.R = NewRng(g.R.U64() ^ uint64(g.Part+1)*0x9E3779B97F4A7C15)
	}
	th := g.Thorough()
	sel := func(i int) bool { return i%g.Parts == g.Part }
	idx := 0
	if g.Part == 0 {
		vectors(g)
		malformed(g)
		// keys that NewSANSE must refuse (the empty key is outside the property: NewSANSE panics on it)
		for _, kl := range []int{200, 201, 256} {
			g.Op("new sanse %s", HexOrDash(g.R.Bytes(kl)))
			g.Op("seal a 00 01")
			g.Op("new kv %s", HexOrDash(g.R.Bytes(kl)))
			g.Op("kra 8 2 01")
			g.Op("vatte 128 0")
		}
	}
	// ---- key lengths 1..199 (mask derivation k ‖ 1 ‖ 0*) x length pairs around the 200-byte blocks
	pairsAll := [][2]int{{0, 0}, {1, 0}, {0, 1}, {16, 16}, {199, 1}, {200, 200}, {201, 199}, {399, 0}, {400, 401}, {401, 400}, {600, 33}, {1000, 16}}
	for kl := 1; kl <= 199; kl++ {
		pairs := pairsAll
		for _, pa := range pairs {
			idx++
			if !sel(idx) {
				continue
			}
			key := g.R.Bytes(kl)
			ad := data(g, pa[1])
			g.Op("new sanse %s", HexOrDash(key))
			g.Op("seal a %s %s", HexOrDash(ad), HexOrDash(data(g, pa[0])))
			g.Op("openl b %s -", HexOrDash(ad))
			g.Op("seal b %s %s", HexOrDash(ad), HexOrDash(data(g, pa[1])))
			g.Op("openl a %s -", HexOrDash(ad))
		}
		// raw mask and a short Kravatte call for every key length
		idx++
		if sel(idx) {
			g.Op("new kv %s", HexOrDash(g.R.Bytes(kl)))
			g.Op("dump k")
			g.Op("kravatte 2 32 %s", HexOrDash(g.R.Bytes(kl%40)))
		}
	}
	// ---- single-byte key changes: the outputs must differ
	kls := keySpread
	if th {
		kls = nil
		for kl := 1; kl <= 199; kl++ {
			kls = append(kls, kl)
		}
	}
	for _, kl := range kls {
		key := g.R.Bytes(kl)
		for i := 0; i < kl; i++ {
			if !th && kl > 40 && i > 8 && i < kl-9 && i%16 != 0 {
				continue
			}
			idx++
			if !sel(idx) {
				continue
			}
			x := byte(1) << uint(g.R.Intn(8))
			g.Op("keydiff %s %s %s %s", HexOrDash(key), HexOrDash(flipByteAt(key, i, x)), HexOrDash(g.R.Bytes(3)), HexOrDash(g.R.Bytes(20)))
		}
		// a key and the same key with one more zero byte are different keys
		idx++
		if sel(idx) && kl < 199 {
			g.Op("keydiff %s %s - 0102", HexOrDash(key), HexOrDash(append(append([]byte{}, key...), 0)))
		}
	}
	// ---- (|P|, |A|) around every 200-byte boundary
	edges := []int{0, 1, 199, 200, 201, 399, 400, 401}
	if th {
		edges = append(edges, 599, 600, 601, 799, 800, 801, 999, 1000, 1001, 1400, 8191, 8200, 64503)
	}
	for _, pl := range edges {
		for _, al := range edges {
			idx++
			if !sel(idx) || (pl > 2000 && al > 2000) {
				continue
			}
			key := g.R.Bytes(Pick(g.R, []int{16, 16, 32, 5, 24}))
			ad := data(g, al)
			g.Op("new sanse %s", HexOrDash(key))
			g.Op("seal a %s %s", HexOrDash(ad), HexOrDash(data(g, pl)))
			g.Op("openl b %s -", HexOrDash(ad))
			g.Op("seal a %s %s", HexOrDash(ad), HexOrDash(data(g, al)))
			g.Op("openl b %s -", HexOrDash(ad))
		}
	}
	// ---- sessions
	nSess, maxMsgs := 300, 8
	if th {
		nSess, maxMsgs = 80000/g.Parts, 24
	}
	for c := 0; c < nSess; c++ {
		g.Op("new sanse %s", HexOrDash(g.R.Bytes(Pick(g.R, []int{16, 16, 16, 32, 1, 7, 9, 24, 40, 100, 199}))))
		n := 1 + g.R.Intn(maxMsgs)
		for i := 0; i < n; i++ {
			from, to := "a", "b"
			if g.R.Chance(1, 3) {
				from, to = "b", "a"
			}
			pl, al := pickLen(g), 0
			switch g.R.Intn(4) {
			case 0:
				al = 0
			case 1:
				al = 1 + g.R.Intn(16)
			default:
				al = pickLen(g)
			}
			if g.R.Chance(1, 6) {
				pl = 0
			}
			ad := data(g, pos(al))
			g.Op("seal %s %s %s", from, HexOrDash(ad), HexOrDash(data(g, pos(pl))))
			switch g.R.Intn(14) {
			case 0: // tampered ciphertext or tag: rejected, receiver out of step from here on
				g.Op("openl %s %s %d", to, HexOrDash(ad), g.R.Intn(8*(pos(pl)+32)))
			case 1: // other associated data
				if len(ad) > 0 {
					g.Op("openl %s %s -", to, HexOrDash(flipByteAt(ad, g.R.Intn(len(ad)), 1<<uint(g.R.Intn(8)))))
				} else {
					g.Op("openl %s 00 -", to)
				}
			case 2: // message lost: the receiver never sees it
			case 3: // replayed to the sender itself
				g.Op("openl %s %s -", from, HexOrDash(ad))
			default:
				g.Op("openl %s %s -", to, HexOrDash(ad))
			}
		}
		if g.R.Chance(1, 4) {
			// arbitrary bytes as ciphertext (short ones included)
			g.Op("open b %s %s", HexOrDash(g.R.Bytes(g.R.Intn(4))), HexOrDash(g.R.Bytes(Pick(g.R, []int{0, 1, 31, 32, 33, 64, 232}))))
		}
		g.Op("seal a 00 01020304")
		g.Op("openl b 00 -")
	}
	// ---- single-bit flips of ciphertext, tag and associated data: both sides must reject
	nFlip := 4000
	if th {
		nFlip = 0
		// every bit of a 1 KiB message and its tag, and of its 16-byte associated data
		key, ad, p := g.R.Bytes(16), g.R.Bytes(16), g.R.Bytes(1024)
		for bit := 0; bit < 8*(1024+32); bit++ {
			idx++
			if !sel(idx) {
				continue
			}
			g.Op("new sanse %s", HexOrDash(key))
			g.Op("seal a %s %s", HexOrDash(ad), HexOrDash(p))
			g.Op("openl b %s %d", HexOrDash(ad), bit)
		}
		for bit := 0; bit < 8*16; bit++ {
			idx++
			if !sel(idx) {
				continue
			}
			g.Op("new sanse %s", HexOrDash(key))
			g.Op("seal a %s %s", HexOrDash(ad), HexOrDash(p))
			g.Op("openl b %s -", HexOrDash(flipByteAt(ad, bit/8, 1<<uint(bit%8))))
		}
	}
	for c := 0; c < nFlip; {
		key := g.R.Bytes(Pick(g.R, []int{16, 32, 3}))
		pl := Pick(g.R, []int{0, 1, 5, 40, 199, 200, 201, 420})
		ad := g.R.Bytes(Pick(g.R, []int{0, 1, 16, 200}))
		p := g.R.Bytes(pl)
		total := 8 * (pl + 32)
		for k := 0; k < 40; k++ {
			c++
			g.Op("new sanse %s", HexOrDash(key))
			g.Op("seal a %s %s", HexOrDash(ad), HexOrDash(p))
			switch {
			case k < 24: // ciphertext / tag bit; the tag's bits more often
				bit := g.R.Intn(total)
				if k%2 == 0 {
					bit = total - 1 - g.R.Intn(256)
				}
				g.Op("openl b %s %d", HexOrDash(ad), bit)
			case k < 36 && len(ad) > 0:
				g.Op("openl b %s -", HexOrDash(flipByteAt(ad, g.R.Intn(len(ad)), 1<<uint(g.R.Intn(8)))))
			case k < 38: // associated data shortened / extended
				g.Op("openl b %s -", HexOrDash(append(append([]byte{}, ad...), 0)))
			default: // truncated to the tag alone / extended by a byte: as `open` with explicit bytes is
				// generator-independent only for arbitrary bytes, use the unmodified message as control
				g.Op("openl b %s -", HexOrDash(ad))
			}
		}
	}
	// ---- programs over the raw deck function
	nKv := 400
	if th {
		nKv = 80000 / g.Parts
	}
	for c := 0; c < nKv; c++ {
		g.Op("new kv %s", HexOrDash(g.R.Bytes(Pick(g.R, []int{16, 16, 32, 1, 7, 33, 199}))))
		steps := 1 + g.R.Intn(10)
		for i := 0; i < steps; i++ {
			switch g.R.Intn(10) {
			case 0, 1, 2: // non-final input, whole bytes
				n := Pick(g.R, []int{0, 1, 7, 8, 43, 100, 199, 200, 201, 399, 400, 401, 450, 1000})
				fl := 0
				if g.R.Chance(1, 10) {
					fl = 1 // FlagInit
				}
				g.Op("kra %d %d %s", 8*n, fl, HexOrDash(g.R.Bytes(n)))
			case 3, 4: // final input, any number of bits
				bits := 8*Pick(g.R, []int{0, 1, 24, 25, 26, 43, 199, 200, 201, 400, 401}) + Pick(g.R, []int{0, 0, 0, 1, 3, 7})
				g.Op("kra %d %d %s", bits, 2+Pick(g.R, []int{0, 0, 0, 1}), HexOrDash(g.R.Bytes((bits+7)/8)))
			case 5: // malformed: non-final with a ragged bit length
				g.Op("kra 13 0 ffff")
			case 6, 7: // non-final output
				n := Pick(g.R, []int{0, 1, 16, 32, 100, 199, 200, 201, 399, 400, 401, 600})
				g.Op("vatte %d %d", 8*n, Pick(g.R, []int{0, 0, 0, 4}))
			case 8: // final output, any number of bits
				bits := 8*Pick(g.R, []int{0, 1, 16, 199, 200, 201, 400}) + Pick(g.R, []int{0, 0, 1, 5, 7})
				g.Op("vatte %d %d", bits, 2+Pick(g.R, []int{0, 0, 4}))
			default:
				n := Pick(g.R, []int{0, 1, 11, 200, 201, 450})
				g.Op("kravatte %d %d %s", Pick(g.R, []int{0, 1, 2, 4, 5}), Pick(g.R, []int{0, 1, 16, 32, 200, 201, 333}), HexOrDash(g.R.Bytes(n)))
			}
			if g.R.Chance(1, 2) {
				g.Op("dump %s", Pick(g.R, []string{"k", "r", "x", "y", "q", "o", "o", "x", "r"}))
			}
		}
		g.Op("kra 0 2 -")
		g.Op("vatte 256 2")
	}
}

func malformed(g *GenCtx) {
	g.Op("new sanse 000102030405060708090a0b0c0d0e0f")
	for _, l := range []string{
		"seal", "seal a", "seal a 00", "seal c 00 00", "seal a zz 00", "seal a 00 0", "open a 00", "open a 0g 00",
		"openl a 00", "openl a 00 x", "openl c 00 -", "keydiff 00 01 00", "keydiff 0 01 00 00", "kra 8 0 00",
		"vatte 8 0", "dump k", "wrap a 00 00", "SEAL a 00 00",
	} {
		g.Op("%s", l)
	}
	g.Op("seal a 00 0102")
	g.Op("openl b 00 -")
	g.Op("new kv 000102030405060708090a0b0c0d0e0f")
	for _, l := range []string{
		"kra", "kra 8", "kra 8 0", "kra x 0 00", "kra 8 9 00", "kra 16 0 00", "kra 8 0 0000", "kra 8 0 zz", "vatte", "vatte 8",
		"vatte x 0", "vatte 8 8", "vatte -8 0", "kravatte 0 16", "kravatte 9 16 00", "dump", "dump z", "seal a 00 00",
		"openl a 00 -",
	} {
		g.Op("%s", l)
	}
	g.Op("kra 8 2 01")
	g.Op("vatte 64 0")
	// malformed `new` lines: each is a case of its own
	for _, l := range []string{"new", "new sanse", "new kv", "new foo 00", "new sanse zz", "new kv 0", "new sanse 00 00"} {
		g.Op("%s", l)
	}
}

// ---------------------------------------------------------------- run

const nVar = 5

type obj struct{ v [nVar]cipher.AEAD }

func newObj(key []byte) (*obj, bool) {
	o := &obj{}
	for i := range o.v {
		a, err := kravatte.NewSANSE(append([]byte{}, key...))
		if err != nil {
			return nil, false
		}
		o.v[i] = a
	}
	return o, true
}

var prefix = []byte{0xde, 0xad, 0xbe, 0xef, 0x55}

// seal runs Seal on the three objects with three buffer layouts; returns C‖T and whether all agree
func (o *obj) seal(ad, p []byte) ([]byte, bool) {
	ok := true
	// 0: fresh buffers; the caller's plaintext and associated data must stay intact
	p0, ad0 := append([]byte{}, p...), append([]byte{}, ad...)
	r0 := o.v[0].Seal(nil, nil, p0, ad0)
	ok = ok && bytes.Equal(p0, p) && bytes.Equal(ad0, ad) && len(r0) == len(p)+kravatte.TagSize
	// 1: dst = plaintext[:0] with room for the tag (exact overlap)
	buf := make([]byte, len(p), len(p)+kravatte.TagSize)
	copy(buf, p)
	ad1 := append([]byte{}, ad...)
	r1 := o.v[1].Seal(buf[:0], nil, buf, ad1)
	ok = ok && bytes.Equal(r1, r0) && bytes.Equal(ad1, ad)
	// 2: dst holds a prefix and has spare capacity; plaintext elsewhere
	d2 := make([]byte, len(prefix), len(prefix)+len(p)+kravatte.TagSize+7)
	copy(d2, prefix)
	p2 := append([]byte{}, p...)
	r2 := o.v[2].Seal(d2, nil, p2, ad)
	ok = ok && len(r2) == len(prefix)+len(r0) && bytes.Equal(r2[:len(prefix)], prefix) && bytes.Equal(r2[len(prefix):], r0) && bytes.Equal(p2, p)
	// 3: one array holds a header followed by the plaintext; dst is the header (the crypto/cipher
	// "exact overlap" pattern Seal(buf[:hdr], nil, buf[hdr:], ad))
	b3 := make([]byte, len(prefix)+len(p), len(prefix)+len(p)+kravatte.TagSize)
	copy(b3, prefix)
	copy(b3[len(prefix):], p)
	r3 := o.v[3].Seal(b3[:len(prefix)], nil, b3[len(prefix):], ad)
	ok = ok && len(r3) == len(prefix)+len(r0) && bytes.Equal(r3[:len(prefix)], prefix) && bytes.Equal(r3[len(prefix):], r0)
	// 4: dst holds a prefix and has NO spare capacity (the result is reallocated): the prefix is kept
	d4 := append(make([]byte, 0, len(prefix)), prefix...)
	r4 := o.v[4].Seal(d4, nil, append([]byte{}, p...), ad)
	ok = ok && len(r4) == len(prefix)+len(r0) && bytes.Equal(r4[:len(prefix)], prefix) && bytes.Equal(r4[len(prefix):], r0) && bytes.Equal(d4, prefix)
	return r0, ok
}

func (o *obj) open(ad, ct []byte) ([]byte, bool, bool) {
	ok := true
	c0, ad0 := append([]byte{}, ct...), append([]byte{}, ad...)
	r0, e0 := o.v[0].Open(nil, nil, c0, ad0)
	ok = ok && bytes.Equal(c0, ct) && bytes.Equal(ad0, ad)
	if e0 == nil {
		ok = ok && len(r0) == len(ct)-kravatte.TagSize
	}
	// 1: dst = ciphertext[:0] (exact overlap)
	c1 := append([]byte{}, ct...)
	r1, e1 := o.v[1].Open(c1[:0], nil, c1, ad)
	ok = ok && (e0 == nil) == (e1 == nil)
	if e0 == nil && e1 == nil {
		ok = ok && bytes.Equal(r1, r0)
	}
	// 2: dst with prefix and spare capacity
	d2 := make([]byte, len(prefix), len(prefix)+len(ct)+3)
	copy(d2, prefix)
	c2 := append([]byte{}, ct...)
	r2, e2 := o.v[2].Open(d2, nil, c2, ad)
	ok = ok && (e0 == nil) == (e2 == nil) && bytes.Equal(c2, ct)
	if e0 == nil && e2 == nil {
		ok = ok && len(r2) == len(prefix)+len(r0) && bytes.Equal(r2[:len(prefix)], prefix) && bytes.Equal(r2[len(prefix):], r0)
	}
	// 3: header and ciphertext in one array; dst is the header (exact overlap behind it)
	b3 := make([]byte, len(prefix)+len(ct))
	copy(b3, prefix)
	copy(b3[len(prefix):], ct)
	r3, e3 := o.v[3].Open(b3[:len(prefix)], nil, b3[len(prefix):], ad)
	ok = ok && (e0 == nil) == (e3 == nil)
	if e0 == nil && e3 == nil {
		ok = ok && len(r3) == len(prefix)+len(r0) && bytes.Equal(r3[:len(prefix)], prefix) && bytes.Equal(r3[len(prefix):], r0)
	}
	// 4: dst with a prefix and no spare capacity
	d4 := append(make([]byte, 0, len(prefix)), prefix...)
	r4, e4 := o.v[4].Open(d4, nil, append([]byte{}, ct...), ad)
	ok = ok && (e0 == nil) == (e4 == nil)
	if e0 == nil && e4 == nil {
		ok = ok && len(r4) == len(prefix)+len(r0) && bytes.Equal(r4[:len(prefix)], prefix) && bytes.Equal(r4[len(prefix):], r0)
	}
	return r0, e0 == nil, ok
}

type state struct {
	objs   map[string]*obj // "a", "b"; nil when there is no object (no `new sanse` yet, or key refused)
	kv     *kravatte.Kravatte
	lastCt []byte
}

func suffix(ok bool) string {
	if ok {
		return ""
	}
	return " alias-mismatch"
}

func flipBit(b []byte, bit int) []byte {
	c := append([]byte{}, b...)
	if len(c) == 0 {
		return c
	}
	bit %= 8 * len(c)
	c[bit/8] ^= 1 << uint(bit%8)
	return c
}

func (s *state) doOpen(name string, ad, ct []byte) string {
	o, known := s.objs[name]
	if !known {
		return "bad-op"
	}
	if o == nil {
		return "none"
	}
	return Guard(func() string {
		p, accepted, ok := o.open(ad, ct)
		if !accepted {
			return "err" + suffix(ok)
		}
		return HexOrDash(p) + suffix(ok)
	})
}

func (s *state) exec(f []string) string {
	switch {
	case len(f) == 3 && f[0] == "new" && f[1] == "sanse":
		key, ok := Unhex(f[2])
		if !ok {
			return "bad-op"
		}
		return Guard(func() string {
			a, ok1 := newObj(key)
			b, ok2 := newObj(key)
			*s = state{objs: map[string]*obj{"a": a, "b": b}}
			if !ok1 || !ok2 {
				s.objs["a"], s.objs["b"] = nil, nil
				return "err"
			}
			return "ok"
		})
	case len(f) == 4 && f[0] == "seal":
		o, known := s.objs[f[1]]
		ad, ok1 := Unhex(f[2])
		p, ok2 := Unhex(f[3])
		if !known || !ok1 || !ok2 {
			return "bad-op"
		}
		if o == nil {
			return "none"
		}
		return Guard(func() string {
			ct, ok := o.seal(ad, p)
			s.lastCt = ct
			return HexOrDash(ct) + suffix(ok)
		})
	case len(f) == 4 && f[0] == "open":
		ad, ok1 := Unhex(f[2])
		ct, ok2 := Unhex(f[3])
		if !ok1 || !ok2 {
			return "bad-op"
		}
		return s.doOpen(f[1], ad, ct)
	case len(f) == 4 && f[0] == "openl":
		ad, ok1 := Unhex(f[2])
		if !ok1 {
			return "bad-op"
		}
		if f[3] == "-" {
			return s.doOpen(f[1], ad, s.lastCt)
		}
		bit, err := strconv.ParseUint(f[3], 10, 31)
		if err != nil {
			return "bad-op"
		}
		return s.doOpen(f[1], ad, flipBit(s.lastCt, int(bit)))
	case len(f) == 5 && f[0] == "keydiff":
		k1, ok1 := Unhex(f[1])
		k2, ok2 := Unhex(f[2])
		ad, ok3 := Unhex(f[3])
		p, ok4 := Unhex(f[4])
		if !ok1 || !ok2 || !ok3 || !ok4 {
			return "bad-op"
		}
		return Guard(func() string {
			a1, e1 := kravatte.NewSANSE(k1)
			a2, e2 := kravatte.NewSANSE(k2)
			if e1 != nil || e2 != nil {
				return "err"
			}
			if bytes.Equal(a1.Seal(nil, nil, p, ad), a2.Seal(nil, nil, p, ad)) {
				return "same"
			}
			return "differ"
		})
	case len(f) == 3 && f[0] == "new" && f[1] == "kv":
		key, ok := Unhex(f[2])
		if !ok {
			return "bad-op"
		}
		return Guard(func() string {
			*s = state{objs: map[string]*obj{"a": nil, "b": nil}, kv: &kravatte.Kravatte{}}
			if s.kv.RefMaskInitialize(key) != 0 {
				return "err"
			}
			return "ok"
		})
	case len(f) == 4 && f[0] == "kra" && s.kv != nil:
		bits, e1 := strconv.ParseUint(f[1], 10, 31)
		flags, e2 := strconv.ParseUint(f[2], 10, 31)
		in, ok := Unhex(f[3])
		if e1 != nil || e2 != nil || !ok || flags >= 8 || len(in) != (int(bits)+7)/8 {
			return "bad-op"
		}
		return Guard(func() string { return strconv.Itoa(s.kv.Kra(append([]byte{}, in...), int(bits), int(flags))) })
	case len(f) == 3 && f[0] == "vatte" && s.kv != nil:
		bits, e1 := strconv.ParseUint(f[1], 10, 31)
		flags, e2 := strconv.ParseUint(f[2], 10, 31)
		if e1 != nil || e2 != nil || flags >= 8 || bits > 8000000 {
			return "bad-op"
		}
		return Guard(func() string {
			out := make([]byte, (bits+7)/8)
			if s.kv.Vatte(out, int(bits), int(flags)) != 0 {
				return "err"
			}
			return HexOrDash(out)
		})
	case len(f) == 4 && f[0] == "kravatte" && s.kv != nil:
		flags, e1 := strconv.ParseUint(f[1], 10, 31)
		n, e2 := strconv.ParseUint(f[2], 10, 31)
		in, ok := Unhex(f[3])
		if e1 != nil || e2 != nil || !ok || flags >= 8 || n > 1000000 {
			return "bad-op"
		}
		return Guard(func() string {
			out := make([]byte, n)
			if s.kv.Kravatte(append([]byte{}, in...), out, int(flags)) != 0 {
				return "err"
			}
			return HexOrDash(out)
		})
	case len(f) == 2 && f[0] == "dump" && s.kv != nil:
		d := s.kv.VerifDump()
		switch f[1] {
		case "k":
			return HexOrDash(d.K[:])
		case "r":
			return HexOrDash(d.Kr[:])
		case "x":
			return HexOrDash(d.X[:])
		case "y":
			return HexOrDash(d.Y[:])
		case "q":
			return HexOrDash(d.Q[:])
		case "o":
			return strconv.Itoa(d.QueueOffsetBits)
		}
	}
	return "bad-op"
}

func run(in *bufio.Scanner, out *bufio.Writer) {
	s := &state{objs: map[string]*obj{"a": nil, "b": nil}}
	for in.Scan() {
		f := strings.Fields(in.Text())
		res, script := Script(f, s.exec)
		if !script {
			res = ExecExpect(f, s.exec)
		}
		out.WriteString(res)
		out.WriteByte('\n')
	}
}
