package main

import (
	"bufio"
	"errors"
	"fmt"
	"io"
	"net"
	"os"
	"runtime"
	"sort"
	"strconv"
	"strings"
	"sync"
	"sync/atomic"
	"time"

	"github.com/sirupsen/logrus"

	"hop.computer/hop/common"
	"hop.computer/hop/tubes"
	. "hopverif/hvlib"
)

// C16 — tube and muxer shutdown.  Generated concurrent programs of Write/Read/Close/WaitForClose/
// Stop run on both ends of two real muxers joined by an in-memory MsgConn with a loss pattern;
// the harness prints the observed trace (tube-state transition log from the verif hooks, every
// call with its result and global start/end order, hangs, final states, goroutine leaks) and the
// Lean driver `hopmodel C16` judges it against Model/Fin and the rules proved in Props/C16.
//
// Program format:
//   new <id> kinds=<r|u per tube> loss=<pattern> early=<0|1> yseed=<n>
//   go <a|b> <op> <op> …         ops: w<i>:<n> r<i>:<n> c<i> wc<i> stop sl:<ms>
//   end
// Tube i is created by side a when i is even, by side b when i is odd, and accepted by the other.

func main() { Main(map[string]*Suite{"C16": {Gen: gen, Run: run}}) }

const (
	callWatchdog  = 45 * time.Second // per call; the muxer's own bounds are about 1 s + 1 s
	setupWatchdog = 20 * time.Second
	batchSize     = 12
)

// ---------------------------------------------------------------- generator

var lossKinds = []string{"none", "none", "p10", "p30", "p60", "total", "dead:0", "dead:3", "dead:8", "dead:20", "oneway", "werr:0", "werr:2", "werr:6"}

func gen(g *GenCtx) {
	// hvlib's streams for neighbouring seeds are shifted copies of one another and re-synchronise;
	// re-seed from the first draw so that different seeds give unrelated programs
	g.R = NewRng(g.R.U64())
	n := 132
	if g.Thorough() {
		n = 3000 / g.Parts
	}
	id := 0
	pol := ""
	emit := func(kinds, loss string, early int, gos [][]string) {
		id++
		g.Op("new %d kinds=%s loss=%s early=%d%s yseed=%d", id, kinds, loss, early, pol, g.R.Intn(1<<30))
		for _, l := range gos {
			g.Op("go %s", strings.Join(l, " "))
		}
		g.Op("end")
	}
	// One whole batch (they share the stretched critical sections): Stop with a large backlog while
	// a delay spike towards the writer ends.  The acknowledgements that were held back arrive in a
	// stream around the moment Stop's fallback forces the tube closed, each of them opening the
	// window for frames of the backlog.  Nothing may panic, Stop returns, the tube ends closed.
	pol = " ypol=locks"
	for k := 0; k < batchSize; k++ {
		if k%4 == 3 {
			// the same against the lastAck timer (4*RTT after the Close that follows the peer's FIN)
			emit("r", fmt.Sprintf("spike:%d", 100+100*(k/4)+g.R.Intn(80)), 0, [][]string{{"a", "wm0:500", "sl:30", "c0", "sl:2500", "stop"}, {"b", "c0", "sl:3000", "stop"}})
			continue
		}
		emit("r", fmt.Sprintf("spike:%d", 700+25*k+g.R.Intn(25)), 0, [][]string{{"a", fmt.Sprintf("wm0:%d", Pick(g.R, []int{400, 600, 900})), "stop"}, {"b", "sl:3000", "stop"}})
	}
	pol = ""
	// fixed shapes: the graceful paths, simultaneous close, close on a dead network, stop with
	// open tubes, stop on both sides at once, I/O after close
	emit("r", "none", 0, [][]string{{"a", "w0:100", "c0", "wc0", "r0:10", "w0:5", "c0"}, {"b", "r0:200", "c0", "wc0", "r0:10"}, {"a", "sl:400", "stop"}, {"b", "sl:400", "stop"}})
	emit("r", "none", 0, [][]string{{"a", "c0", "wc0"}, {"b", "c0", "wc0"}, {"a", "sl:300", "stop"}, {"b", "sl:300", "stop"}})
	emit("r", "total", 0, [][]string{{"a", "c0", "w0:1", "r0:1", "wc0", "r0:1"}, {"b", "sl:50", "c0", "wc0"}, {"a", "sl:200", "stop"}, {"b", "sl:200", "stop"}})
	emit("rr", "dead:2", 0, [][]string{{"a", "w0:3000", "c0", "c1"}, {"b", "r0:100", "c1", "c0", "wc0"}, {"a", "sl:100", "stop"}, {"b", "stop"}})
	emit("ru", "none", 0, [][]string{{"a", "w0:10", "w1:10", "stop"}, {"b", "r0:10", "r1:10", "stop"}, {"a", "stop"}, {"b", "sl:20", "stop"}})
	emit("u", "p30", 0, [][]string{{"a", "w0:10", "c0", "w0:1", "r0:5", "wc0"}, {"b", "r0:10", "c0", "c0"}, {"a", "sl:100", "stop"}, {"b", "sl:100", "stop"}})
	emit("r", "total", 1, [][]string{{"a", "c0"}, {"a", "w0:10"}, {"a", "sl:100", "stop"}, {"b", "sl:100", "stop"}})
	emit("r", "oneway", 0, [][]string{{"a", "c0", "wc0"}, {"b", "r0:10", "c0", "wc0"}, {"a", "sl:1500", "stop"}, {"b", "sl:1500", "stop"}})

	// the transport starts to fail writes while frames are unacknowledged: the muxer's sender gives up and
	// drains, the tubes' retransmissions keep coming, Stop must still return
	for _, k := range []int{0, 1, 2, 4} {
		emit("r", fmt.Sprintf("werr:%d", k), 0, [][]string{{"a", "w0:3000", "w0:10", "sl:600", "stop"}, {"b", "sl:100", "w0:50", "sl:900", "stop"}})
		emit("rr", fmt.Sprintf("werr:%d", k), 0, [][]string{{"a", "w0:100", "w1:100", "sl:450", "c0", "stop"}, {"b", "r0:10", "sl:1500", "stop"}})
	}
	// tubes opened and closed at once while the program runs (Close racing with the initiation
	// goroutine's first steps and with the peer's answer), on a healthy and on a dead network
	for _, loss := range []string{"none", "none", "p30", "total"} {
		emit("r", loss, 0, [][]string{{"a", "nu:0", "nu:0", "nu:20", "nu:60", "nu:150", "nu:400"}, {"b", "nu:0", "nr:0", "nu:40", "nr:40", "nu:100"},
			{"a", "nr:0", "nr:10", "nr:80", "nr:250"}, {"a", "sl:300", "stop"}, {"b", "sl:300", "stop"}})
	}
	for c := 0; c < n; c++ {
		nt := 1 + g.R.Intn(3)
		kinds := ""
		for i := 0; i < nt; i++ {
			if g.R.Chance(3, 4) {
				kinds += "r"
			} else {
				kinds += "u"
			}
		}
		loss := Pick(g.R, lossKinds)
		early := 0
		if g.R.Chance(1, 8) {
			early = 1
		}
		var gos [][]string
		ng := 2 + g.R.Intn(4)
		for k := 0; k < ng; k++ {
			side := "a"
			if k%2 == 1 {
				side = "b"
			}
			l := []string{side}
			nops := 1 + g.R.Intn(5)
			for j := 0; j < nops; j++ {
				t := g.R.Intn(nt)
				switch x := g.R.Intn(100); {
				case x < 22:
					l = append(l, fmt.Sprintf("w%d:%d", t, Pick(g.R, []int{1, 10, 500, 3000, 40000})))
				case x < 44:
					l = append(l, fmt.Sprintf("r%d:%d", t, Pick(g.R, []int{1, 64, 4096})))
				case x < 70:
					l = append(l, fmt.Sprintf("c%d", t))
				case x < 84:
					l = append(l, fmt.Sprintf("wc%d", t))
				case x < 88:
					l = append(l, "stop")
				case x < 92:
					l = append(l, fmt.Sprintf("n%s:%d", Pick(g.R, []string{"u", "u", "r"}), Pick(g.R, []int{0, 0, 10, 40, 120, 500})))
				default:
					l = append(l, fmt.Sprintf("sl:%d", Pick(g.R, []int{1, 5, 30, 120})))
				}
			}
			gos = append(gos, l)
		}
		// every program stops both muxers eventually (otherwise a Read on a healthy idle tube may
		// legitimately block for ever)
		for _, side := range []string{"a", "b"} {
			d := Pick(g.R, []int{0, 5, 40, 150, 400, 1300})
			gos = append(gos, []string{side, fmt.Sprintf("sl:%d", d), "stop"})
		}
		emit(kinds, loss, early, gos)
	}
}

// ---------------------------------------------------------------- in-memory lossy MsgConn

type memConn struct {
	addr   *net.UDPAddr
	in     chan []byte
	peer   *memConn
	closed chan struct{}
	once   sync.Once

	mu     sync.Mutex
	rdl    time.Time
	dlCh   chan struct{}
	lossOn bool
	loss   string
	sent   int
	rng    *Rng

	// loss "spike:<ms>": a delay spike in the direction b -> a.  From the start of the program b's
	// datagrams are held back; <ms> after a's first Stop began they are delivered, in order, one
	// every millisecond, and so is everything b sends afterwards (see releaseAfter).
	held     [][]byte
	holding  bool
	pacing   bool
	paceDone chan struct{}
}

func (c *memConn) isSpikeSender() bool {
	return strings.HasPrefix(c.loss, "spike:") && c.addr.IP[len(c.addr.IP)-1] == 2
}

// releaseAfter ends the delay spike d from now: the held datagrams are handed to the peer one by
// one.  Called on b's conn when side a starts to Stop.
func (c *memConn) releaseAfter(d time.Duration) {
	c.mu.Lock()
	if !c.holding || c.pacing {
		c.mu.Unlock()
		return
	}
	c.pacing = true
	c.mu.Unlock()
	go func() {
		defer close(c.paceDone)
		select {
		case <-time.After(d):
		case <-c.closed:
			return
		}
		idle := 0
		for idle < 900 { // ends 0.9 s after the last datagram
			c.mu.Lock()
			var p []byte
			if len(c.held) > 0 {
				p, c.held = c.held[0], c.held[1:]
			}
			c.mu.Unlock()
			if p != nil {
				idle = 0
				select {
				case c.peer.in <- p:
				default:
				}
			} else {
				idle++
			}
			select {
			case <-c.closed:
				return
			case <-time.After(time.Millisecond):
			}
		}
	}()
}

func newPair(caseNo int, loss string, seed uint64) (*memConn, *memConn) {
	mk := func(ip byte, s uint64) *memConn {
		return &memConn{addr: &net.UDPAddr{IP: net.IPv4(10, 0, 0, ip), Port: 10000 + caseNo}, in: make(chan []byte, 8192),
			closed: make(chan struct{}), dlCh: make(chan struct{}), loss: loss, rng: NewRng(s)}
	}
	a, b := mk(1, seed*2+1), mk(2, seed*2+2)
	a.peer, b.peer = b, a
	return a, b
}

func (c *memConn) setLoss(on bool) {
	c.mu.Lock()
	c.lossOn = on
	if on && c.isSpikeSender() && c.paceDone == nil {
		c.holding = true
		c.paceDone = make(chan struct{})
	}
	c.mu.Unlock()
}

// loss "werr:<k>": after k datagrams every write on this connection FAILS (a connected UDP socket whose
// peer is gone reports ECONNREFUSED), nothing arrives any more either
func (c *memConn) writeFails() bool {
	c.mu.Lock()
	defer c.mu.Unlock()
	if !c.lossOn || !strings.HasPrefix(c.loss, "werr:") {
		return false
	}
	k, _ := strconv.Atoi(c.loss[5:])
	c.sent++
	return c.sent > k
}

func (c *memConn) drop() bool {
	c.mu.Lock()
	defer c.mu.Unlock()
	if !c.lossOn {
		return false
	}
	c.sent++
	switch {
	case c.loss == "none" || strings.HasPrefix(c.loss, "spike:") || strings.HasPrefix(c.loss, "werr:"):
		return false
	case c.loss == "total":
		return true
	case c.loss == "oneway":
		return c.addr.IP[len(c.addr.IP)-1] == 1 // a -> b is dead
	case strings.HasPrefix(c.loss, "p"):
		p, _ := strconv.Atoi(c.loss[1:])
		return c.rng.Intn(100) < p
	case strings.HasPrefix(c.loss, "dead:"):
		k, _ := strconv.Atoi(c.loss[5:])
		return c.sent > k
	}
	return false
}

func (c *memConn) ReadMsg(b []byte) (int, error) {
	for {
		c.mu.Lock()
		dl, ch := c.rdl, c.dlCh
		c.mu.Unlock()
		var tc <-chan time.Time
		var tm *time.Timer
		if !dl.IsZero() {
			d := time.Until(dl)
			if d <= 0 {
				return 0, os.ErrDeadlineExceeded
			}
			tm = time.NewTimer(d)
			tc = tm.C
		}
		select {
		case p := <-c.in:
			if tm != nil {
				tm.Stop()
			}
			return copy(b, p), nil
		case <-c.closed:
			if tm != nil {
				tm.Stop()
			}
			return 0, net.ErrClosed
		case <-tc:
			return 0, os.ErrDeadlineExceeded
		case <-ch:
			if tm != nil {
				tm.Stop()
			}
		}
	}
}

func (c *memConn) WriteMsg(b []byte) error {
	select {
	case <-c.closed:
		return net.ErrClosed
	default:
	}
	if c.writeFails() {
		return &net.OpError{Op: "write", Net: "mem", Err: errors.New("connection refused")}
	}
	if c.drop() {
		return nil
	}
	c.mu.Lock()
	if c.holding {
		if len(c.held) < 1<<16 {
			c.held = append(c.held, append([]byte(nil), b...))
		}
		c.mu.Unlock()
		return nil
	}
	c.mu.Unlock()
	p := append([]byte(nil), b...)
	select {
	case c.peer.in <- p:
	default: // receive buffer full: dropped, like UDP
	}
	return nil
}

func (c *memConn) Read(b []byte) (int, error)  { return c.ReadMsg(b) }
func (c *memConn) Write(b []byte) (int, error) { return len(b), c.WriteMsg(b) }
func (c *memConn) Close() error                { c.once.Do(func() { close(c.closed) }); return nil }
func (c *memConn) LocalAddr() net.Addr         { return c.addr }
func (c *memConn) RemoteAddr() net.Addr        { return c.peer.addr }
func (c *memConn) SetDeadline(t time.Time) error {
	return c.SetReadDeadline(t)
}
func (c *memConn) SetReadDeadline(t time.Time) error {
	c.mu.Lock()
	c.rdl = t
	close(c.dlCh)
	c.dlCh = make(chan struct{})
	c.mu.Unlock()
	return nil
}
func (c *memConn) SetWriteDeadline(time.Time) error { return nil }

// ---------------------------------------------------------------- schedule perturbation and logs

var yieldSeed atomic.Uint64
var yieldCtr atomic.Uint64

// slowLocks (header ypol=locks, set for a whole batch): the critical sections of the tube's lifecycle
// lock are stretched - a frame being received holds the lock for 0.2-0.5 ms, a close transition for
// 3 ms before it closes the sender - so that whoever else wants the lock queues up behind them.
var slowLocks atomic.Bool

func yield(site string) {
	if slowLocks.Load() {
		switch site {
		case "Reliable.receive.locked":
			time.Sleep(time.Duration(200+yieldCtr.Add(1)%4*100) * time.Microsecond)
			return
		case "Reliable.enterClosedState.marked":
			time.Sleep(3 * time.Millisecond)
			return
		}
	}
	n := yieldCtr.Add(1)
	z := (yieldSeed.Load() + n) * 0x9E3779B97F4A7C15
	z = (z ^ (z >> 30)) * 0xBF58476D1CE4E5B9
	z = (z ^ (z >> 27)) * 0x94D049BB133111EB
	z ^= z >> 31
	switch z % 16 {
	case 0, 1, 2:
		runtime.Gosched()
	case 3:
		time.Sleep(time.Duration(20+z>>8%300) * time.Microsecond)
	case 4:
		if (z>>20)%4 == 0 {
			time.Sleep(time.Duration(1+z>>8%4) * time.Millisecond)
		}
	}
}

type trEntry struct {
	addr  string
	id    byte
	inc   int
	site  string
	state int32
}

var trMu sync.Mutex
var trLog []trEntry

// A program may open tubes while it runs, and an identifier is free again once its tube has been
// reaped: the second tube object seen for one (muxer, id) is called `r0#2` in the trace, so that the
// monitor starts it from the initial state.
var incOf = map[tubes.Tube]int{}
var incNext = map[string]int{}

// incarnation: callers hold trMu
func incarnation(r tubes.Tube) int {
	if n, ok := incOf[r]; ok {
		return n
	}
	k := fmt.Sprintf("%s/%v/%d", r.LocalAddr().String(), r.IsReliable(), r.GetID())
	incNext[k]++
	incOf[r] = incNext[k]
	return incNext[k]
}

func logState(r *tubes.Reliable, site string, state int32) {
	trMu.Lock()
	trLog = append(trLog, trEntry{r.LocalAddr().String(), r.GetID(), incarnation(r), site, state})
	trMu.Unlock()
}

// ---------------------------------------------------------------- running one case

type program struct {
	header string
	id     int
	kinds  string
	loss   string
	early  bool
	yseed  uint64
	ypol   string
	gos    [][]string
	bad    bool
}

type callRec struct {
	g          int
	op, tube   string
	start, end int64
	res        string
	hung       bool
}

type caseRun struct {
	p     *program
	ca    *memConn
	cb    *memConn
	seq   atomic.Int64
	mu    sync.Mutex
	calls []*callRec
	info  []string
	out   []string
	extra []extraTube // reliable tubes opened by the program itself

	skipped bool
}

type extraTube struct {
	side string
	r    *tubes.Reliable
}

func errClass(err error) string {
	switch {
	case err == nil:
		return "ok"
	case errors.Is(err, io.EOF):
		return "eof"
	case errors.Is(err, os.ErrDeadlineExceeded):
		return "timeout"
	case errors.Is(err, tubes.ErrBadTubeState):
		return "bad"
	case errors.Is(err, tubes.ErrMuxerStopping):
		return "stopping"
	}
	return "err"
}

func incSuffix(n int) string {
	if n <= 1 {
		return ""
	}
	return fmt.Sprintf("#%d", n)
}

func tubeName(side string, t tubes.Tube) string {
	k := "u"
	if t.IsReliable() {
		k = "r"
	}
	trMu.Lock()
	suffix := incSuffix(incarnation(t))
	trMu.Unlock()
	return fmt.Sprintf("%s.%s%d%s", side, k, t.GetID(), suffix)
}

// guarded runs f on its own goroutine under the watchdog; a panic in f is the result "panic"
func guarded(f func() string, d time.Duration) (string, bool) {
	done := make(chan string, 1)
	go func() { done <- Guard(f) }()
	select {
	case r := <-done:
		return r, true
	case <-time.After(d):
		return "", false
	}
}

func (cr *caseRun) run() {
	p := cr.p
	cr.ca, cr.cb = newPair(p.id, p.loss, p.yseed)
	if p.early {
		cr.ca.setLoss(true)
		cr.cb.setLoss(true)
	}
	lg := logrus.New()
	lg.SetOutput(io.Discard)
	lg.SetLevel(logrus.PanicLevel)
	cfg := func(n string) *tubes.Config {
		return &tubes.Config{Timeout: time.Second, Log: lg.WithField("muxer", n)}
	}
	muxA := tubes.Client(cr.ca, cfg("a"))
	muxB := tubes.Server(cr.cb, cfg("b"))
	mux := map[string]*tubes.Muxer{"a": muxA, "b": muxB}

	// set-up: tube i is created by a (i even) or b (i odd) and accepted by the other side
	nt := len(p.kinds)
	tb := map[string][]tubes.Tube{"a": make([]tubes.Tube, nt), "b": make([]tubes.Tube, nt)}
	accepted := map[string]chan tubes.Tube{"a": make(chan tubes.Tube, 16), "b": make(chan tubes.Tube, 16)}
	for _, s := range []string{"a", "b"} {
		go func(s string) {
			for {
				t, err := mux[s].Accept()
				if err != nil {
					return
				}
				accepted[s] <- t
			}
		}(s)
	}
	for i := 0; i < nt; i++ {
		creator, other := "a", "b"
		if i%2 == 1 {
			creator, other = "b", "a"
		}
		var t tubes.Tube
		var err error
		if p.kinds[i] == 'r' {
			var r *tubes.Reliable
			r, err = mux[creator].CreateReliableTube(common.ExecTube)
			t = r
		} else {
			var u *tubes.Unreliable
			u, err = mux[creator].CreateUnreliableTube(common.ExecTube)
			t = u
		}
		if err != nil {
			cr.info = append(cr.info, fmt.Sprintf("info create %d failed %s", i, errClass(err)))
			continue
		}
		tb[creator][i] = t
		wait := setupWatchdog
		if p.early {
			wait = 700 * time.Millisecond // under early loss the peer may never learn of the tube
		}
		select {
		case at := <-accepted[other]:
			tb[other][i] = at
		case <-time.After(wait):
			cr.info = append(cr.info, fmt.Sprintf("info tube %d not accepted by %s", i, other))
		}
	}
	cr.ca.setLoss(true)
	cr.cb.setLoss(true)
	// tubes the program opens itself are accepted by the peer and left to its Stop
	progDone := make(chan struct{})
	defer close(progDone)
	// … every second one of them is closed by the acceptor at once, so that its FIN follows its answer
	// to the request back to back (the opener's initiation goroutine may not have finished yet)
	for k, s := range []string{"a", "b"} {
		go func(ch chan tubes.Tube, rng *Rng) {
			for {
				select {
				case t := <-ch:
					if rng.Chance(1, 2) {
						go t.Close()
					}
				case <-progDone:
					return
				}
			}
		}(accepted[s], NewRng(p.yseed*2+uint64(k)))
	}

	// the program
	var wg sync.WaitGroup
	for gi, gl := range p.gos {
		wg.Add(1)
		go func(gi int, gl []string) {
			defer wg.Done()
			side := gl[0]
			for _, op := range gl[1:] {
				if !cr.doOp(gi, side, op, mux, tb) {
					return // a hung call: this goroutine stops here
				}
			}
		}(gi, gl)
	}
	wg.Wait()

	// whatever the program did, both muxers are stopped before the case ends
	for _, s := range []string{"a", "b"} {
		r, ok := guarded(func() string { mux[s].Stop(); return "ok" }, callWatchdog)
		if !ok {
			r = "hang"
		}
		cr.info = append(cr.info, fmt.Sprintf("fstop %s %s", s, r))
	}
	cr.ca.Close()
	cr.cb.Close()
	for _, c := range []*memConn{cr.ca, cr.cb} {
		c.mu.Lock()
		pd, started := c.paceDone, c.pacing
		c.mu.Unlock()
		if pd != nil && started {
			<-pd
		}
	}
	for _, x := range cr.extra {
		tb[x.side] = append(tb[x.side], x.r)
	}
	for _, s := range []string{"a", "b"} {
		for _, t := range tb[s] {
			if r, ok := t.(*tubes.Reliable); ok && r != nil {
				// the accessor takes the tube's lock: after a hang that lock may be held for ever
				st, ok := guarded(func() string { return tubes.VerifStateNames[r.VerifTubeState()] }, 10*time.Second)
				if ok {
					cr.info = append(cr.info, fmt.Sprintf("final %s %s", tubeName(s, r), st))
				} else {
					cr.info = append(cr.info, fmt.Sprintf("info final state of %s unreadable: its lock is held", tubeName(s, r)))
				}
			}
		}
	}
}

func (cr *caseRun) doOp(gi int, side, op string, mux map[string]*tubes.Muxer, tb map[string][]tubes.Tube) bool {
	if strings.HasPrefix(op, "sl:") {
		ms, _ := strconv.Atoi(op[3:])
		time.Sleep(time.Duration(ms) * time.Millisecond)
		return true
	}
	kind, idx, arg := op, -1, 0
	if op != "stop" {
		body := op
		if i := strings.IndexByte(op, ':'); i >= 0 {
			body = op[:i]
			arg, _ = strconv.Atoi(op[i+1:])
		}
		kind = strings.TrimRight(body, "0123456789")
		idx, _ = strconv.Atoi(body[len(kind):])
	}
	if kind == "nu" || kind == "nr" {
		return cr.createAndClose(gi, side, kind == "nr", arg, mux[side])
	}
	var t tubes.Tube
	name := side
	if kind != "stop" {
		if idx < 0 || idx >= len(tb[side]) || tb[side][idx] == nil {
			return true // this side never got the tube (early loss): skipped
		}
		t = tb[side][idx]
		name = tubeName(side, t)
	}
	var f func() string
	switch kind {
	case "stop":
		if side == "a" && cr.cb.isSpikeSender() {
			ms, _ := strconv.Atoi(cr.cb.loss[len("spike:"):])
			cr.cb.releaseAfter(time.Duration(ms) * time.Millisecond)
		}
		f = func() string { mux[side].Stop(); return "ok" }
	case "c":
		f = func() string { return errClass(t.Close()) }
	case "wc":
		f = func() string { t.WaitForClose(); return "ok" }
	case "w":
		f = func() string {
			n, err := t.Write(make([]byte, arg))
			if err == nil && n != arg {
				return "short"
			}
			return errClass(err)
		}
	case "wm": // <arg> one-byte writes, i.e. <arg> frames; reported as one Write
		kind = "w"
		f = func() string {
			for k := 0; k < arg; k++ {
				if n, err := t.Write([]byte{byte(k)}); err != nil || n != 1 {
					return errClass(err)
				}
			}
			return "ok"
		}
	case "r":
		f = func() string {
			n, err := t.Read(make([]byte, arg))
			if n > 0 {
				return fmt.Sprintf("data %d %s", n, errClass(err))
			}
			if err == nil {
				return "empty"
			}
			return errClass(err)
		}
	default:
		return true
	}
	return cr.record(gi, kind, name, f)
}

// record runs f under the watchdog and logs the call; false when it did not return
func (cr *caseRun) record(gi int, kind, name string, f func() string) bool {
	rec := &callRec{g: gi, op: kind, tube: name, start: cr.seq.Add(1)}
	res, ok := guarded(f, callWatchdog)
	rec.end = cr.seq.Add(1)
	rec.res, rec.hung = res, !ok
	cr.mu.Lock()
	cr.calls = append(cr.calls, rec)
	cr.mu.Unlock()
	return ok
}

// createAndClose (ops nu:<µs>, nr:<µs>): open a new tube on this side while the program runs and
// close it <µs> later - at once, while its initiation goroutine has not run yet, or around the
// arrival of the peer's answer - then wait for it.  Close and WaitForClose are ordinary recorded
// calls on the new tube.
func (cr *caseRun) createAndClose(gi int, side string, rel bool, delayUs int, m *tubes.Muxer) bool {
	var t tubes.Tube
	var err error
	if rel {
		var r *tubes.Reliable
		r, err = m.CreateReliableTube(common.ExecTube)
		t = r
	} else {
		var u *tubes.Unreliable
		u, err = m.CreateUnreliableTube(common.ExecTube)
		t = u
	}
	if err != nil {
		return true // the muxer is stopping: nothing was created
	}
	if r, ok := t.(*tubes.Reliable); ok {
		cr.mu.Lock()
		cr.extra = append(cr.extra, extraTube{side, r})
		cr.mu.Unlock()
	}
	if delayUs > 0 {
		time.Sleep(time.Duration(delayUs) * time.Microsecond)
	}
	name := tubeName(side, t)
	if !cr.record(gi, "c", name, func() string { return errClass(t.Close()) }) {
		return false
	}
	if !cr.record(gi, "wc", name, func() string { t.WaitForClose(); return "ok" }) {
		return false
	}
	// after the close a Read returns (end of stream, or what was buffered): it never blocks
	return cr.record(gi, "r", name, func() string {
		n, err := t.Read(make([]byte, 16))
		if n > 0 {
			return fmt.Sprintf("data %d %s", n, errClass(err))
		}
		if err == nil {
			return "empty"
		}
		return errClass(err)
	})
}

func (cr *caseRun) render(tr []trEntry) {
	o := &cr.out
	*o = append(*o, cr.p.header)
	aAddr, bAddr := cr.ca.addr.String(), cr.cb.addr.String()
	for _, e := range tr {
		side := ""
		switch e.addr {
		case aAddr:
			side = "a"
		case bAddr:
			side = "b"
		default:
			continue
		}
		*o = append(*o, fmt.Sprintf("tr %s.r%d%s %s %s", side, e.id, incSuffix(e.inc), e.site, tubes.VerifStateNames[e.state]))
	}
	sort.SliceStable(cr.calls, func(i, j int) bool { return cr.calls[i].end < cr.calls[j].end })
	for _, c := range cr.calls {
		if c.hung {
			*o = append(*o, fmt.Sprintf("hang %d %s %s %d", c.g, c.op, c.tube, c.start))
		} else {
			*o = append(*o, fmt.Sprintf("ret %d %s %s %d %d %s", c.g, c.op, c.tube, c.start, c.end, c.res))
		}
	}
	*o = append(*o, cr.info...)
}

func parseProgram(lines []string) *program {
	p := &program{header: lines[0]}
	f := strings.Fields(lines[0])
	if len(f) < 2 {
		p.bad = true
		return p
	}
	p.id, _ = strconv.Atoi(f[1])
	for _, kv := range f[2:] {
		k, v, _ := strings.Cut(kv, "=")
		switch k {
		case "kinds":
			p.kinds = v
		case "loss":
			p.loss = v
		case "early":
			p.early = v == "1"
		case "yseed":
			p.yseed, _ = strconv.ParseUint(v, 10, 64)
		case "ypol":
			p.ypol = v
		}
	}
	if p.kinds == "" || len(p.kinds) > 8 || strings.Trim(p.kinds, "ru") != "" {
		p.bad = true
	}
	for _, l := range lines[1:] {
		g := strings.Fields(l)
		if len(g) < 2 || g[0] != "go" || (g[1] != "a" && g[1] != "b") {
			p.bad = true
			continue
		}
		p.gos = append(p.gos, g[1:])
	}
	return p
}

func run(in *bufio.Scanner, out *bufio.Writer) {
	tubes.SetVerifYield(yield)
	tubes.SetVerifStateLog(logState)
	common.SetVerifYield(yield)
	var progs []*program
	var cur []string
	for in.Scan() {
		l := strings.TrimSpace(in.Text())
		if l == "" {
			continue
		}
		if l == "end" {
			if cur != nil {
				progs = append(progs, parseProgram(cur))
			}
			cur = nil
			continue
		}
		if strings.HasPrefix(l, "new") && cur != nil {
			progs = append(progs, parseProgram(cur))
			cur = nil
		}
		cur = append(cur, l)
	}
	if cur != nil {
		progs = append(progs, parseProgram(cur))
	}
	time.Sleep(10 * time.Millisecond)
	base := runtime.NumGoroutine()
	hungCases := 0
	for i := 0; i < len(progs); i += batchSize {
		j := min(i+batchSize, len(progs))
		batch := make([]*caseRun, 0, j-i)
		trMu.Lock()
		trLog = nil
		incOf = map[tubes.Tube]int{}
		incNext = map[string]int{}
		trMu.Unlock()
		var wg sync.WaitGroup
		slow := false
		for _, p := range progs[i:j] {
			slow = slow || p.ypol == "locks"
		}
		slowLocks.Store(slow)
		for _, p := range progs[i:j] {
			cr := &caseRun{p: p}
			batch = append(batch, cr)
			if p.bad || !strings.HasPrefix(p.header, "new") {
				continue
			}
			if hungCases >= 3 {
				// enough calls have failed to return: every further one costs a full watchdog
				cr.skipped = true
				continue
			}
			yieldSeed.Store(p.yseed)
			wg.Add(1)
			go func() { defer wg.Done(); cr.run() }()
		}
		wg.Wait()
		// goroutines must go back to the baseline; poll generously before calling it a leak
		leaked := 0
		deadline := time.Now().Add(20 * time.Second)
		for {
			leaked = runtime.NumGoroutine() - base
			if leaked <= 0 || time.Now().After(deadline) {
				break
			}
			time.Sleep(20 * time.Millisecond)
		}
		anyHang := false
		for _, cr := range batch {
			h := false
			for _, c := range cr.calls {
				h = h || c.hung
			}
			for _, l := range cr.info {
				h = h || strings.HasSuffix(l, " hang")
			}
			if h {
				hungCases++
			}
			anyHang = anyHang || h
		}
		trMu.Lock()
		tr := append([]trEntry(nil), trLog...)
		trMu.Unlock()
		for _, cr := range batch {
			if cr.p.bad || !strings.HasPrefix(cr.p.header, "new") {
				fmt.Fprintln(out, cr.p.header)
				fmt.Fprintln(out, "bad-program")
				continue
			}
			if cr.skipped {
				fmt.Fprintln(out, cr.p.header)
				fmt.Fprintln(out, "info skipped after 3 cases with calls that did not return")
				fmt.Fprintln(out, "end")
				continue
			}
			cr.render(tr)
			for _, l := range cr.out {
				fmt.Fprintln(out, l)
			}
			if leaked > 0 && !anyHang {
				fmt.Fprintf(out, "leak %d\n", leaked)
			}
			fmt.Fprintln(out, "end")
		}
		out.Flush()
		if leaked > 0 {
			buf := make([]byte, 1<<20)
			n := runtime.Stack(buf, true)
			fmt.Fprintf(os.Stderr, "goroutines above baseline: %d\n%s\n", leaked, buf[:n])
			base = runtime.NumGoroutine() // do not blame later batches
		}
	}
}
