package main

import (
	"bufio"
	"bytes"
	"crypto/rand"
	"errors"
	"fmt"
	"net"
	"os"
	"path/filepath"
	"strings"
	"sync"
	"time"

	"hop.computer/hop/authgrants"
	"hop.computer/hop/certs"
	"hop.computer/hop/config"
	"hop.computer/hop/hopserver"
	"hop.computer/hop/keys"
	"hop.computer/hop/transport"
	"hopverif/hs"
	. "hopverif/hvlib"
	"hopverif/tnet"
)

// Suite C01cfg — the glue between a server's configuration and the policy its transport server
// applies to clients: config.LoadServerConfigFromFile (TOML -> ServerConfig) and
// hopserver.NewHopServer (ServerConfig -> transport.ServerConfig, virtual hosts, getCert).
//
//	cfg <toml|struct> <skip> <dcv> <ak> <ag> <ca 0|1> <client ok|selfsigned|otherroot> <granted 0|1>
//	     skip = InsecureSkipVerify, dcv = DisableCertificateValidation, ak = EnableAuthorizedKeys,
//	     ag = EnableAuthgrants, each a(bsent) | t | f; ca: the CA root is listed in CAFiles;
//	     granted: an authorization grant for the client's key was added before it connects
//	     -> h=<a real client completed the handshake over loopback UDP and the server accepted it>
//	hid <top|names|both>   a hidden-mode server whose KEM key is configured at the top level / in the host block / both
//	     -> d=<a discoverable handshake succeeded> k=<the handshake of a client that knows the KEM key succeeded>
//	sni <match|nomatch|type7f-nomatch|type7f-match|empty|ipv4|ipv4-other|binary>
//	     a server with ONE virtual host and no `*` block; the client asks for that name kind
//	     -> h=<0|1> p=<virtual host whose certificate was presented: 0 | 1 | none> a=<an honest client is served afterwards>
type cfgFiles struct {
	dir                                   string
	key, cert, inter, root, kem, otherKey string
	srvKey                                *keys.X25519KeyPair
	srvKEM                                *keys.KEMKeyPair
	srvLeaf                               *certs.Certificate
	// a second virtual host: pattern 10.0.0.*, certificate for the IPv4-typed name "10.0.0.7" (hopclient
	// puts the TEXT of ServerIPv4 into the label) and for the raw name ff fe (not UTF-8)
	ipKey  *keys.X25519KeyPair
	ipLeaf *certs.Certificate
}

var theCfgFiles *cfgFiles

const cfgHost = "srv.example"

var sniKinds = []string{"match", "nomatch", "type7f-nomatch", "type7f-match", "empty", "ipv4", "ipv4-other", "binary"}

func writeFile(path string, b []byte) {
	if err := os.WriteFile(path, b, 0o600); err != nil {
		panic(err)
	}
}

func files() *cfgFiles {
	if theCfgFiles != nil {
		return theCfgFiles
	}
	p := hs.PKI()
	dir, err := os.MkdirTemp("", "hv-c01cfg-")
	if err != nil {
		panic(err)
	}
	f := &cfgFiles{dir: dir}
	f.srvKey = keys.GenerateNewX25519KeyPair()
	f.srvLeaf = p.Leaf(f.srvKey.Public, certs.RawStringName(cfgHost), certs.RawStringName(tnet.ServerName))
	f.ipKey = keys.GenerateNewX25519KeyPair()
	f.ipLeaf = p.Leaf(f.ipKey.Public, certs.Name{Type: certs.TypeIPv4Address, Label: []byte("10.0.0.7")}, certs.Name{Type: certs.TypeRaw, Label: []byte{0xff, 0xfe}})
	kem, err := keys.GenerateKEMKeyPair(cfgRand{})
	if err != nil {
		panic(err)
	}
	f.srvKEM = kem
	pemOf := func(c *certs.Certificate) []byte {
		b, err := certs.EncodeCertificateToPEM(c)
		if err != nil {
			panic(err)
		}
		return b
	}
	var kb, kemb bytes.Buffer
	if err := keys.EncodeDHKeyToPEM(&kb, f.srvKey); err != nil {
		panic(err)
	}
	if err := keys.EncodeKEMKeyToPEM(&kemb, *kem); err != nil {
		panic(err)
	}
	f.key, f.cert, f.inter, f.root, f.kem = filepath.Join(dir, "id.pem"), filepath.Join(dir, "leaf.pem"), filepath.Join(dir, "inter.pem"),
		filepath.Join(dir, "root.pem"), filepath.Join(dir, "kem.pem")
	writeFile(f.key, kb.Bytes())
	writeFile(f.kem, kemb.Bytes())
	writeFile(f.cert, pemOf(f.srvLeaf))
	writeFile(f.inter, pemOf(p.Inter))
	writeFile(f.root, pemOf(p.Root))
	theCfgFiles = f
	return f
}

type cfgRand struct{}

func (cfgRand) Read(b []byte) (int, error) { return rand.Read(b) }

func tomlBool(name, v string) string {
	switch v {
	case "t":
		return name + " = true\n"
	case "f":
		return name + " = false\n"
	}
	return ""
}

func tri(v string) bool { return v == "t" }

// buildServer makes the hop server of a cfg line and returns it with the address it listens on
func buildServer(mode, skip, dcv, ak, ag string, ca bool, namesOnly bool) (*hopserver.HopServer, *net.UDPAddr, error) {
	f := files()
	var sc *config.ServerConfig
	if mode == "toml" {
		var b strings.Builder
		fmt.Fprintf(&b, "ListenAddress = \"127.0.0.1:0\"\nKey = %q\nCertificate = %q\nIntermediate = %q\n", f.key, f.cert, f.inter)
		if ca {
			fmt.Fprintf(&b, "CAFiles = [%q]\n", f.root)
		}
		b.WriteString(tomlBool("InsecureSkipVerify", skip))
		b.WriteString(tomlBool("DisableCertificateValidation", dcv))
		b.WriteString(tomlBool("EnableAuthorizedKeys", ak))
		b.WriteString(tomlBool("EnableAuthgrants", ag))
		path := filepath.Join(f.dir, fmt.Sprintf("hopd-%d.toml", time.Now().UnixNano()))
		writeFile(path, []byte(b.String()))
		defer os.Remove(path)
		var err error
		sc, err = config.LoadServerConfigFromFile(path)
		if err != nil {
			return nil, nil, err
		}
	} else {
		sc = &config.ServerConfig{ListenAddress: "127.0.0.1:0", HandshakeTimeout: 15 * time.Second,
			InsecureSkipVerify: tri(skip), DisableCertificateValidation: tri(dcv), EnableAuthorizedKeys: tri(ak), EnableAuthgrants: tri(ag)}
		if ca {
			sc.CACerts = []*certs.Certificate{hs.PKI().Root}
		}
		if namesOnly {
			sc.Names = []config.NameConfig{{Pattern: cfgHost, Key: f.srvKey, Certificate: f.srvLeaf, Intermediate: hs.PKI().Inter},
				{Pattern: "10.0.0.*", Key: f.ipKey, Certificate: f.ipLeaf, Intermediate: hs.PKI().Inter},
				{Pattern: "\xff*", Key: f.ipKey, Certificate: f.ipLeaf, Intermediate: hs.PKI().Inter}}
		} else {
			sc.Key, sc.Certificate, sc.Intermediate = f.srvKey, f.srvLeaf, hs.PKI().Inter
		}
	}
	sock := filepath.Join(f.dir, fmt.Sprintf("ag-%d.sock", time.Now().UnixNano()))
	sc.AgProxyListenSocket = &sock
	srv, err := hopserver.NewHopServer(sc)
	if err != nil {
		return nil, nil, err
	}
	addr, _ := srv.Server.Addr().(*net.UDPAddr)
	go srv.Server.Serve()
	return srv, addr, nil
}

// connect runs one real client handshake; true when it completed and the server offered the connection
func connect(srv *hopserver.HopServer, addr *net.UDPAddr, client string, name certs.Name, kp *keys.X25519KeyPair) bool {
	ok, _ := connectP(srv, addr, client, name, kp)
	return ok
}

// connectP also reports which virtual host's certificate the server presented: 0 (the named host), 1 (the
// IPv4 / non-UTF-8 host) or "none" (no ServerAuth came)
func connectP(srv *hopserver.HopServer, addr *net.UDPAddr, client string, name certs.Name, kp *keys.X25519KeyPair) (bool, string) {
	presented := "none"
	f := files()
	p := hs.PKI()
	var leaf, inter *certs.Certificate
	switch client {
	case "ok":
		leaf, inter = p.Leaf(kp.Public, certs.RawStringName("client")), p.Inter
	case "selfsigned":
		leaf = tnet.SelfSigned(kp.Public, certs.RawStringName("client"))
	case "otherroot":
		leaf, inter = p.OtherLeaf(kp.Public, certs.RawStringName("client")), p.OtherI
	}
	ccfg := transport.ClientConfig{Exchanger: kp, Leaf: leaf, Intermediate: inter, HSTimeout: 3 * time.Second,
		Verify: transport.VerifyConfig{Store: p.Store, Name: name}}
	// the additional callback only runs when the certificate verified; to see what was presented
	// whatever the verdict, a second client skips verification and looks at the leaf
	probe := ccfg
	probe.Verify = transport.VerifyConfig{InsecureSkipVerify: true, Name: name, AddVerifyCallback: func(l *certs.Certificate) error {
		switch l.PublicKey {
		case f.srvKey.Public:
			presented = "0"
		case f.ipKey.Public:
			presented = "1"
		default:
			presented = "other"
		}
		return errors.New("only looking")
	}}
	if pc, err := transport.Dial("udp", addr.String(), probe); err == nil {
		pc.Handshake()
		pc.Close()
	}
	c, err := transport.Dial("udp", addr.String(), ccfg)
	if err != nil {
		return false, presented
	}
	defer c.Close()
	if err := c.Handshake(); err != nil {
		return false, presented
	}
	h, err := srv.Server.AcceptTimeout(3 * time.Second)
	if err != nil {
		return false, presented
	}
	h.Close()
	return true, presented
}

func okTri(s string) bool { return s == "a" || s == "t" || s == "f" }

func runCfg(in *bufio.Scanner, out *bufio.Writer) {
	// every line is its own case with its own server and port: they run 16 at a time (a refused
	// client only learns of it when its handshake timeout expires)
	var lines []string
	for in.Scan() {
		lines = append(lines, in.Text())
	}
	files()
	res := make([]string, len(lines))
	sem := make(chan struct{}, 16)
	var wg sync.WaitGroup
	for i, l := range lines {
		wg.Add(1)
		sem <- struct{}{}
		go func(i int, l string) {
			defer wg.Done()
			defer func() { <-sem }()
			res[i] = runCfgLine(strings.Fields(l))
		}(i, l)
	}
	wg.Wait()
	for _, r := range res {
		out.WriteString(r)
		out.WriteByte('\n')
	}
	out.Flush()
}

func runCfgLine(f []string) string {
	switch {
	case len(f) == 9 && f[0] == "cfg" && (f[1] == "toml" || f[1] == "struct") && okTri(f[2]) && okTri(f[3]) && okTri(f[4]) && okTri(f[5]) &&
		(f[6] == "0" || f[6] == "1") && (f[7] == "ok" || f[7] == "selfsigned" || f[7] == "otherroot") && (f[8] == "0" || f[8] == "1"):
		return Guard(func() string {
			srv, addr, err := buildServer(f[1], f[2], f[3], f[4], f[5], f[6] == "1", false)
			if err != nil {
				return "setup-failed"
			}
			defer srv.Server.Close()
			kp := keys.GenerateNewX25519KeyPair()
			if f[8] == "1" {
				// the grant adds the delegate's key to the transport key set (when grants are enabled)
				srv.AddAuthGrant(&authgrants.Intent{GrantType: authgrants.Shell, TargetUsername: "u",
					DelegateCert: certs.Certificate{Type: certs.Leaf, PublicKey: kp.Public},
					StartTime:    time.Now().Add(-time.Hour), ExpTime: time.Now().Add(time.Hour)})
			}
			return fmt.Sprintf("h=%d", b(connect(srv, addr, f[7], certs.RawStringName(tnet.ServerName), kp)))
		})
	case len(f) == 8 && f[0] == "cli":
		return Guard(func() string { return runCli(f) })
	case len(f) == 2 && f[0] == "hid" && (f[1] == "top" || f[1] == "names" || f[1] == "both"):
		// a hidden-mode server (HiddenModeVHostNames set) whose KEM key is configured at the top level, only in
		// the virtual host's block, or in both: it is silent towards a discoverable ClientHello and serves the
		// client that knows its KEM key
		return Guard(func() string {
			fl := files()
			sc := &config.ServerConfig{ListenAddress: "127.0.0.1:0", HandshakeTimeout: 15 * time.Second, InsecureSkipVerify: true,
				HiddenModeVHostNames: []string{cfgHost}}
			nc := config.NameConfig{Pattern: cfgHost, Key: fl.srvKey, Certificate: fl.srvLeaf, Intermediate: hs.PKI().Inter}
			switch f[1] {
			case "top":
				sc.Key, sc.Certificate, sc.Intermediate, sc.KEMKey = fl.srvKey, fl.srvLeaf, hs.PKI().Inter, fl.srvKEM
			case "names":
				nc.KEMKey = fl.srvKEM
				sc.Names = []config.NameConfig{nc}
			case "both":
				nc.KEMKey = fl.srvKEM
				sc.Names = []config.NameConfig{nc}
				sc.Key, sc.Certificate, sc.Intermediate, sc.KEMKey = fl.srvKey, fl.srvLeaf, hs.PKI().Inter, fl.srvKEM
			}
			sock := filepath.Join(fl.dir, fmt.Sprintf("ag-%d.sock", time.Now().UnixNano()))
			sc.AgProxyListenSocket = &sock
			srv, err := hopserver.NewHopServer(sc)
			if err != nil {
				return "setup-failed"
			}
			defer srv.Server.Close()
			addr, _ := srv.Server.Addr().(*net.UDPAddr)
			go srv.Server.Serve()
			p := hs.PKI()
			dial := func(kem *keys.KEMPublicKey) bool {
				kp := keys.GenerateNewX25519KeyPair()
				ccfg := transport.ClientConfig{Exchanger: kp, Leaf: p.Leaf(kp.Public, certs.RawStringName("client")), Intermediate: p.Inter,
					HSTimeout: 2 * time.Second, ServerKEMKey: kem,
					Verify: transport.VerifyConfig{Store: p.Store, Name: certs.RawStringName(cfgHost)}}
				c, err := transport.Dial("udp", addr.String(), ccfg)
				if err != nil {
					return false
				}
				defer c.Close()
				return c.Handshake() == nil
			}
			pub := fl.srvKEM.Public
			return fmt.Sprintf("d=%d k=%d", b(dial(nil)), b(dial(&pub)))
		})
	case len(f) == 2 && f[0] == "sni":
		var name certs.Name
		switch f[1] {
		case "match":
			name = certs.RawStringName(cfgHost)
		case "nomatch":
			name = certs.RawStringName("other.example")
		case "type7f-nomatch":
			name = certs.Name{Type: 0x7f, Label: []byte("other.example")}
		case "type7f-match":
			name = certs.Name{Type: 0x7f, Label: []byte(cfgHost)}
		case "empty":
			name = certs.Name{Type: certs.TypeRaw, Label: []byte{}}
		case "ipv4":
			name = certs.Name{Type: certs.TypeIPv4Address, Label: []byte("10.0.0.7")}
		case "ipv4-other":
			name = certs.Name{Type: certs.TypeIPv4Address, Label: []byte("10.9.0.7")}
		case "binary":
			name = certs.Name{Type: certs.TypeRaw, Label: []byte{0xff, 0xfe}}
		default:
			return "bad-op"
		}
		return Guard(func() string {
			srv, addr, err := buildServer("struct", "t", "a", "a", "a", false, true)
			if err != nil {
				return "setup-failed"
			}
			defer srv.Server.Close()
			h, pres := connectP(srv, addr, "ok", name, keys.GenerateNewX25519KeyPair())
			a := connect(srv, addr, "ok", certs.RawStringName(cfgHost), keys.GenerateNewX25519KeyPair())
			return fmt.Sprintf("h=%d p=%s a=%d", b(h), pres, b(a))
		})
	}
	return "bad-op"
}

func genCfg(g *GenCtx) {
	tris := []string{"a", "t", "f"}
	idx := 0
	for _, mode := range []string{"toml", "struct"} {
		for _, skip := range tris {
			for _, dcv := range tris {
				for _, ak := range tris {
					for _, ag := range tris {
						// every option combination with a client that only a skipped verification admits, and
						// a rotating choice of the other dimensions
						idx++
						if idx%g.Parts != g.Part {
							continue
						}
						combos := [][3]string{{"0", "selfsigned", "0"}}
						switch idx % 4 {
						case 0:
							combos = append(combos, [3]string{"1", "ok", "0"})
						case 1:
							combos = append(combos, [3]string{"1", "selfsigned", "1"})
						case 2:
							combos = append(combos, [3]string{"0", "ok", "0"})
						case 3:
							combos = append(combos, [3]string{"1", "otherroot", "1"})
						}
						if !g.Thorough() && (mode == "struct" && idx%3 != 0 || mode == "toml" && idx%2 != 0 && ak == "f") {
							continue
						}
						for _, c := range combos {
							g.Op("cfg %s %s %s %s %s %s %s %s", mode, skip, dcv, ak, ag, c[0], c[1], c[2])
						}
					}
				}
			}
		}
	}
	for _, k := range sniKinds {
		g.Op("sni %s", k)
	}
	for _, k := range []string{"top", "names", "both"} {
		g.Op("hid %s", k)
	}
	g.Op("cfg toml x a a a 0 ok 0")
	g.Op("sni frob")
	genCli(g)
}
