package main

import (
	"bufio"
	"fmt"
	"strings"

	"hopverif/hs"
	. "hopverif/hvlib"
)

// C01 — dishonest counterparts.  Every line is one handshake:
//
//	hs <xx|ik|ik2|ik3> <policy> <serverAdv> <clientAdv> <listed 0|1|2=listed then revoked> <name|noname>
//	     (ik2, ik3: hidden mode with 1 or 2 certificates of other virtual hosts ahead of the addressed one)
//	     -> c=<client ok> h=<handle offered> d=<data flows both ways>
func main() { Main(map[string]*Suite{"C01": {Gen: gen, Run: run}}) }

var (
	modes      = []string{"xx", "ik", "ik2"}
	policies   = []string{"nil", "skip", "store", "authkeys", "both"}
	serverAdvs = []string{"ok", "wrongkey", "othername", "othertype", "expired", "notyet", "wrongtype", "otherroot", "selfsigned"}
	clientAdvs = []string{"ok", "wrongkey", "expired", "notyet", "otherroot", "selfsigned", "wrongtype"}
)

func gen(g *GenCtx) {
	idx := 0
	emit := func(m, p, s, c string, listed int, name string) {
		idx++
		if idx%g.Parts != g.Part {
			return
		}
		g.Op("hs %s %s %s %s %d %s", m, p, s, c, listed, name)
	}
	for _, m := range modes {
		// every server-side adversary against an honest client, every policy
		for _, s := range serverAdvs {
			for _, p := range []string{"store", "skip"} {
				emit(m, p, s, "ok", 0, "name")
			}
		}
		emit(m, "store", "othername", "ok", 0, "noname")
		emit(m, "store", "ok", "ok", 0, "noname")
		// every client-side adversary against every policy, key listed or not
		for _, p := range policies {
			for _, c := range clientAdvs {
				for listed := 0; listed < 3; listed++ { // 2 = listed, then revoked
					emit(m, p, "ok", c, listed, "name")
				}
			}
		}
	}
	n := 40
	if g.Thorough() {
		n = 1500 / g.Parts
	}
	for i := 0; i < n; i++ {
		g.Op("hs %s %s %s %s %d %s", Pick(g.R, []string{"xx", "xx", "ik", "ik", "ik2", "ik3"}), Pick(g.R, policies), Pick(g.R, serverAdvs), Pick(g.R, clientAdvs),
			g.R.Intn(3), Pick(g.R, []string{"name", "name", "noname"}))
	}
}

func b(v bool) int {
	if v {
		return 1
	}
	return 0
}

func run(in *bufio.Scanner, out *bufio.Writer) {
	for in.Scan() {
		f := strings.Fields(in.Text())
		res := "bad-op"
		if len(f) == 7 && f[0] == "hs" && (f[1] == "xx" || f[1] == "ik" || f[1] == "ik2" || f[1] == "ik3") && (f[5] == "0" || f[5] == "1" || f[5] == "2") {
			decoys := map[string]int{"ik2": 1, "ik3": 2}[f[1]]
			sc := hs.Scenario{Hidden: f[1] != "xx", Decoys: decoys, Policy: f[2], ServerAdv: f[3], ClientAdv: f[4], KeyListed: f[5] == "1", Revoked: f[5] == "2",
				NoName: f[6] == "noname"}
			res = Guard(func() string {
				r := hs.Run(sc, nil)
				return fmt.Sprintf("c=%d h=%d d=%d", b(r.ClientOK), b(r.Handle), b(r.C2S && r.S2C))
			})
		}
		out.WriteString(res)
		out.WriteByte('\n')
		out.Flush()
	}
}
