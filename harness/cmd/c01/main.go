package main

import (
	"bufio"
	"fmt"
	"strings"

	"hopverif/hs"
	. "hopverif/hvlib"
)

// C01 — dishonest counterparts.  Every line is one handshake:
//
//	(policy may carry +cbok / +cbdeny: an additional verify callback in the server's client policy; the last
//	word may carry +skip (the client's InsecureSkipVerify) and +cbok / +cbdeny (the client's callback))
//	hs <xx|ik|ik2|ik3> <policy> <serverAdv> <clientAdv> <listed 0|1|2=listed then revoked> <name|noname>
//	     (ik2, ik3: hidden mode with 1 or 2 certificates of other virtual hosts ahead of the addressed one)
//	     -> c=<client ok> h=<handle offered> d=<data flows both ways> a=<the server still serves an honest client afterwards>
func main() {
	Main(map[string]*Suite{"C01": {Gen: gen, Run: run},
		// the callback scenarios alone: what C06's `Verifying` hypothesis rests on (the principal's
		// approval of the first intent of a connection is an additional verify callback of the
		// handshake with the target, hopclient/principal.go setupTargetClient)
		"C01cfg": {Gen: genCfg, Run: runCfg},
		// the virtual-host glue of the real NewHopServer alone (part of C10's check)
		"C10sni": {Gen: func(g *GenCtx) {
			for i := 0; i < 3; i++ {
				for _, k := range sniKinds {
					g.Op("sni %s", k)
				}
			}
		}, Run: runCfg},
		// hidden-mode servers built by the real NewHopServer (part of C19's check)
		"C19hid": {Gen: func(g *GenCtx) {
			for i := 0; i < 2; i++ {
				for _, k := range []string{"top", "names", "both"} {
					g.Op("hid %s", k)
				}
			}
		}, Run: runCfg},
		"C01cb": {Gen: func(g *GenCtx) {
			genCallbacks(g, func(m, p, s, c string, listed int, name string) {
				g.Op("hs %s %s %s %s %d %s", m, p, s, c, listed, name)
			})
		}, Run: run}})
}

var (
	modes      = []string{"xx", "ik", "ik2"}
	policies   = []string{"nil", "skip", "store", "authkeys", "both"}
	serverAdvs = []string{"ok", "wrongkey", "othername", "othertype", "expired", "notyet", "wrongtype", "otherroot", "selfsigned"}
	clientAdvs = []string{"ok", "wrongkey", "expired", "notyet", "otherroot", "selfsigned", "wrongtype"}
)

func gen(g *GenCtx) {
	idx := 0
	emit := func(m, p, s, c string, listed int, name string) {
		idx++
		if idx%g.Parts != g.Part {
			return
		}
		g.Op("hs %s %s %s %s %d %s", m, p, s, c, listed, name)
	}
	for _, m := range modes {
		// every server-side adversary against an honest client, every policy
		for _, s := range serverAdvs {
			for _, p := range []string{"store", "skip"} {
				emit(m, p, s, "ok", 0, "name")
			}
		}
		emit(m, "store", "othername", "ok", 0, "noname")
		emit(m, "store", "ok", "ok", 0, "noname")
		// every client-side adversary against every policy, key listed or not
		for _, p := range policies {
			for _, c := range clientAdvs {
				for listed := 0; listed < 3; listed++ { // 2 = listed, then revoked
					emit(m, p, "ok", c, listed, "name")
				}
			}
		}
	}
	// a certificate that runs out while the server is up (the server has verified others before)
	for _, m := range []string{"xx", "ik"} {
		emit(m, "store", "ok", "lapsed", 0, "name")
	}
	emit("xx", "both", "ok", "lapsed", 0, "name")
	genCallbacks(g, emit)
	n := 40
	if g.Thorough() {
		n = 1500 / g.Parts
	}
	for i := 0; i < n; i++ {
		g.Op("hs %s %s %s %s %d %s", Pick(g.R, []string{"xx", "xx", "ik", "ik", "ik2", "ik3"}), Pick(g.R, policies)+Pick(g.R, []string{"", "", "", "+cbok", "+cbdeny"}), Pick(g.R, serverAdvs), Pick(g.R, clientAdvs),
			g.R.Intn(3), Pick(g.R, []string{"name", "name", "noname"})+Pick(g.R, []string{"", "", "", "+skip", "+cbok", "+cbdeny", "+skip+cbdeny"}))
	}
}

// genCallbacks: additional verify callbacks and the client's InsecureSkipVerify: a callback that refuses
// ends the handshake whatever the rest of the policy says (also when verification is skipped)
func genCallbacks(g *GenCtx, emit func(m, p, s, c string, listed int, name string)) {
	for _, m := range modes {
		for _, cb := range []string{"+cbok", "+cbdeny"} {
			for _, p := range policies {
				emit(m, p+cb, "ok", "ok", 1, "name")
				emit(m, p+cb, "ok", "selfsigned", 0, "name")
			}
			for _, nm := range []string{"name", "name+skip", "noname+skip"} {
				emit(m, "store", "ok", "ok", 0, nm+cb)
				emit(m, "store", "selfsigned", "ok", 0, nm+cb)
			}
		}
		emit(m, "store", "selfsigned", "ok", 0, "name+skip")
		emit(m, "store", "othername", "ok", 0, "name+skip")
	}
}

func b(v bool) int {
	if v {
		return 1
	}
	return 0
}

func run(in *bufio.Scanner, out *bufio.Writer) {
	for in.Scan() {
		f := strings.Fields(in.Text())
		res := "bad-op"
		if len(f) == 7 && f[0] == "hs" && (f[1] == "xx" || f[1] == "ik" || f[1] == "ik2" || f[1] == "ik3") && (f[5] == "0" || f[5] == "1" || f[5] == "2") {
			decoys := map[string]int{"ik2": 1, "ik3": 2}[f[1]]
			pol := strings.Split(f[2], "+")
			nm := strings.Split(f[6], "+")
			f[2], f[6] = pol[0], nm[0]
			opt := func(l []string, w string) bool {
				for _, x := range l[1:] {
					if x == w {
						return true
					}
				}
				return false
			}
			cbOf := func(l []string) string {
				switch {
				case opt(l, "cbok"):
					return "ok"
				case opt(l, "cbdeny"):
					return "deny"
				}
				return ""
			}
			sc := hs.Scenario{Hidden: f[1] != "xx", Decoys: decoys, ServerCB: cbOf(pol), ClientSkip: opt(nm, "skip"), ClientCB: cbOf(nm), Policy: f[2], ServerAdv: f[3], ClientAdv: f[4], KeyListed: f[5] == "1", Revoked: f[5] == "2",
				NoName: f[6] == "noname"}
			res = Guard(func() string {
				r, alive := hs.RunProbe(sc)
				return fmt.Sprintf("c=%d h=%d d=%d a=%s", b(r.ClientOK), b(r.Handle), b(r.C2S && r.S2C), alive)
			})
		}
		out.WriteString(res)
		out.WriteByte('\n')
		out.Flush()
	}
}
