package main

import (
	"bytes"
	"fmt"
	"net"
	"os"
	"path/filepath"
	"strings"
	"sync"
	"sync/atomic"
	"time"

	"hop.computer/hop/certs"
	"hop.computer/hop/config"
	"hop.computer/hop/hopclient"
	"hop.computer/hop/keys"
	"hop.computer/hop/transport"
	"hopverif/hs"
	. "hopverif/hvlib"
	"hopverif/tnet"
)

// The client side of the configuration glue (suite C01cfg, op `cli`): a client configuration (file or
// structs: a [Global] block and one matching [[Hosts]] block) goes through config.LoadClientConfigFromFile,
// ClientConfig.MatchHost, HostConfigOptional.Unwrap and hopclient's authenticatorSetup
// (constructVerifyConfig, loadCAFiles) and a real hopclient.HopClient dials a real transport.Server over
// loopback UDP which presents one of four certificates.
//
//	cli <toml|struct> <disc|hid> <name> <gskip> <hskip> <ca> <srv>
//	     name:  which expected-name options the configuration sets
//	            sn sn-other sn-g sn-gh ip4 ip4-other ip4-g ip6 sn+ip4 snok+ip4 host
//	     gskip / hskip: InsecureSkipVerify in the Global / the host block: a(bsent) | t | f
//	     ca:    CAFiles lists  own (the root the server's chain ends in) | other | none | split (global: other,
//	            host block: own — lists are concatenated)
//	     srv:   A (DNS srv.example, IPv4 "127.0.0.1", IPv6 "::1") | B (DNS 127.0.0.1, raw srv.example) — both
//	            under the trusted root — | otherroot (names of A) | selfsigned (names of A)
//	     -> h=<hopclient.Dial returned nil>
const cliSN = "srv.example"

type cliServer struct {
	addr *net.UDPAddr
	srv  *transport.Server
	kem  *keys.KEMKeyPair
}

var (
	cliOnce    sync.Once
	cliKeyPath string
	cliOther   string
	cliCount   atomic.Int64
)

func cliFiles() {
	cliOnce.Do(func() {
		f := files()
		kp := keys.GenerateNewX25519KeyPair()
		var kb bytes.Buffer
		if err := keys.EncodeDHKeyToPEM(&kb, kp); err != nil {
			panic(err)
		}
		cliKeyPath = filepath.Join(f.dir, "client-id.pem")
		writeFile(cliKeyPath, kb.Bytes())
		b, err := certs.EncodeCertificateToPEM(hs.PKI().OtherRoot)
		if err != nil {
			panic(err)
		}
		cliOther = filepath.Join(f.dir, "other-root.pem")
		writeFile(cliOther, b)
	})
}

func namesA() []certs.Name {
	return []certs.Name{certs.DNSName(cliSN), {Type: certs.TypeIPv4Address, Label: []byte("127.0.0.1")},
		{Type: certs.TypeIPv6Address, Label: []byte("::1")}}
}

func namesB() []certs.Name {
	return []certs.Name{certs.DNSName("127.0.0.1"), certs.RawStringName(cliSN)}
}

func cliStartServer(kind string, hidden bool) (*cliServer, error) {
	p := hs.PKI()
	kp := keys.GenerateNewX25519KeyPair()
	var leaf, inter *certs.Certificate
	switch kind {
	case "A":
		leaf, inter = p.Leaf(kp.Public, namesA()...), p.Inter
	case "B":
		leaf, inter = p.Leaf(kp.Public, namesB()...), p.Inter
	case "otherroot":
		leaf, inter = p.OtherLeaf(kp.Public, namesA()...), p.OtherI
	case "selfsigned":
		leaf = tnet.SelfSigned(kp.Public, namesA()...)
	default:
		return nil, fmt.Errorf("bad server kind")
	}
	kem, err := keys.GenerateKEMKeyPair(cfgRand{})
	if err != nil {
		return nil, err
	}
	conn, err := net.ListenUDP("udp", &net.UDPAddr{IP: net.IPv4(127, 0, 0, 1)})
	if err != nil {
		return nil, err
	}
	scfg := transport.ServerConfig{KeyPair: kp, KEMKeyPair: kem, Certificate: leaf, Intermediate: inter,
		ClientVerify: &transport.VerifyConfig{InsecureSkipVerify: true}, IsHidden: hidden, MaxPendingConnections: 8,
		HandshakeTimeout: 15 * time.Second}
	s, err := transport.NewServer(conn, scfg)
	if err != nil {
		conn.Close()
		return nil, err
	}
	go s.Serve()
	go func() {
		for {
			h, err := s.AcceptTimeout(time.Minute)
			if err != nil {
				return
			}
			go func() {
				// keep the session open until the client is done with it
				buf := make([]byte, 65536)
				for {
					if _, err := h.ReadMsg(buf); err != nil {
						return
					}
				}
			}()
		}
	}()
	return &cliServer{addr: conn.LocalAddr().(*net.UDPAddr), srv: s, kem: kem}, nil
}

type cliBlock struct {
	sn, ip4, ip6 *string
	skip         *bool
	cas          []string
}

func cliOpt(v string) *bool {
	switch v {
	case "t":
		t := true
		return &t
	case "f":
		f := false
		return &f
	}
	return nil
}

func sp(s string) *string { return &s }

func cliBlocks(name, gskip, hskip, ca string) (g, h cliBlock, ok bool) {
	f := files()
	ok = true
	switch name {
	case "sn":
		h.sn = sp(cliSN)
	case "sn-other":
		h.sn = sp("other.example")
	case "sn-g":
		g.sn = sp(cliSN)
	case "sn-gh":
		g.sn, h.sn = sp("other.example"), sp(cliSN)
	case "ip4":
		h.ip4 = sp("127.0.0.1")
	case "ip4-other":
		h.ip4 = sp("127.0.0.9")
	case "ip4-g":
		g.ip4 = sp("127.0.0.1")
	case "ip6":
		h.ip6 = sp("::1")
	case "sn+ip4":
		h.sn, h.ip4 = sp("other.example"), sp("127.0.0.1")
	case "snok+ip4":
		h.sn, h.ip4 = sp(cliSN), sp("127.0.0.9")
	case "host":
	default:
		ok = false
	}
	g.skip, h.skip = cliOpt(gskip), cliOpt(hskip)
	switch ca {
	case "own":
		h.cas = []string{f.root}
	case "other":
		h.cas = []string{cliOther}
	case "none":
	case "split":
		g.cas, h.cas = []string{cliOther}, []string{f.root}
	default:
		ok = false
	}
	return
}

func (b cliBlock) toml(w *strings.Builder) {
	if b.sn != nil {
		fmt.Fprintf(w, "ServerName = %q\n", *b.sn)
	}
	if b.ip4 != nil {
		fmt.Fprintf(w, "ServerIPv4 = %q\n", *b.ip4)
	}
	if b.ip6 != nil {
		fmt.Fprintf(w, "ServerIPv6 = %q\n", *b.ip6)
	}
	if b.skip != nil {
		fmt.Fprintf(w, "InsecureSkipVerify = %v\n", *b.skip)
	}
	if b.cas != nil {
		q := make([]string, len(b.cas))
		for i, c := range b.cas {
			q[i] = fmt.Sprintf("%q", c)
		}
		fmt.Fprintf(w, "CAFiles = [%s]\n", strings.Join(q, ", "))
	}
}

func (b cliBlock) fill(o *config.HostConfigOptional) {
	o.ServerName, o.ServerIPv4, o.ServerIPv6, o.InsecureSkipVerify, o.CAFiles = b.sn, b.ip4, b.ip6, b.skip, b.cas
}

const cliAlias = "target"

func runCli(f []string) string {
	mode, hidden, name, gskip, hskip, ca, kind := f[1], f[2] == "hid", f[3], f[4], f[5], f[6], f[7]
	cliFiles()
	g, h, ok := cliBlocks(name, gskip, hskip, ca)
	if !ok || !okTri(gskip) || !okTri(hskip) || (mode != "toml" && mode != "struct") || (f[2] != "disc" && f[2] != "hid") {
		return "bad-op"
	}
	sv, err := cliStartServer(kind, hidden)
	if err != nil {
		if err.Error() == "bad server kind" {
			return "bad-op"
		}
		return "setup-failed"
	}
	defer sv.srv.Close()
	kemText := ""
	if hidden {
		pub := sv.kem.Public
		kemText = keys.KEMPublicKeyToString(&pub)
	}
	var cc *config.ClientConfig
	if mode == "toml" {
		var b strings.Builder
		b.WriteString("[Global]\nAutoSelfSign = true\nDisableAgent = true\nRequestAuthorization = false\n")
		fmt.Fprintf(&b, "Key = %q\nUser = \"u\"\nHandshakeTimeout = \"3s\"\n", cliKeyPath)
		g.toml(&b)
		// a block for another host comes first: it must not be applied
		b.WriteString("\n[[Hosts]]\nPatterns = [\"elsewhere*\"]\nInsecureSkipVerify = true\nServerName = \"" + cliSN + "\"\n")
		fmt.Fprintf(&b, "\n[[Hosts]]\nPatterns = [\"tar*\"]\nHostname = \"127.0.0.1\"\nPort = %d\n", sv.addr.Port)
		if hidden {
			fmt.Fprintf(&b, "ServerKEMKey = %q\n", kemText)
		}
		h.toml(&b)
		path := filepath.Join(files().dir, fmt.Sprintf("hop-%d.toml", cliCount.Add(1)))
		writeFile(path, []byte(b.String()))
		defer os.Remove(path)
		cc, err = config.LoadClientConfigFromFile(path)
		if err != nil {
			return "setup-failed"
		}
	} else {
		t, fa := true, false
		cc = &config.ClientConfig{}
		cc.Global = config.HostConfigOptional{AutoSelfSign: &t, DisableAgent: &t, RequestAuthorization: &fa, Key: &cliKeyPath,
			User: sp("u"), HandshakeTimeout: sp("3s")}
		g.fill(&cc.Global)
		other := config.HostConfigOptional{Patterns: []string{"elsewhere*"}, InsecureSkipVerify: &t, ServerName: sp(cliSN)}
		mine := config.HostConfigOptional{Patterns: []string{"tar*"}, Hostname: sp("127.0.0.1"), Port: sv.addr.Port}
		if hidden {
			mine.ServerKEMKey = &kemText
		}
		h.fill(&mine)
		cc.Hosts = []config.HostConfigOptional{other, mine}
	}
	hc := cc.MatchHost(cliAlias).Unwrap()
	c, err := hopclient.NewHopClient(hc)
	if err != nil {
		return "setup-failed"
	}
	res := make(chan error, 1)
	go func() { res <- c.Dial() }()
	select {
	case err = <-res:
	case <-time.After(60 * time.Second):
		return "h=hang"
	}
	if err == nil {
		go c.Close()
	} else if c.TransportConn != nil {
		go c.TransportConn.Close()
	}
	return fmt.Sprintf("h=%d", b(err == nil))
}

var cliNames = []string{"sn", "sn-other", "sn-g", "sn-gh", "ip4", "ip4-other", "ip4-g", "ip6", "sn+ip4", "snok+ip4", "host"}

func genCli(g *GenCtx) {
	tris := []string{"a", "t", "f"}
	idx := 0
	for _, mode := range []string{"toml", "struct"} {
		for _, name := range cliNames {
			for _, kind := range []string{"A", "B", "otherroot", "selfsigned"} {
				for _, ca := range []string{"own", "other", "none", "split"} {
					idx++
					if idx%g.Parts != g.Part {
						continue
					}
					// the full product in the thorough tier; in the quick tier every (name, server) pair with the
					// trusted root listed, and a rotating third of the rest
					if !g.Thorough() && !(ca == "own" && mode == "toml") && idx%3 != 0 {
						continue
					}
					hid := "disc"
					if idx%5 == 0 {
						hid = "hid"
					}
					g.Op("cli %s %s %s a a %s %s", mode, hid, name, ca, kind)
				}
			}
		}
		// the skip option in both blocks, against servers only a skipped verification admits
		for _, gs := range tris {
			for _, hsk := range tris {
				idx++
				if idx%g.Parts != g.Part {
					continue
				}
				g.Op("cli %s disc sn %s %s own selfsigned", mode, gs, hsk)
				g.Op("cli %s %s sn-other %s %s none A", mode, []string{"disc", "hid"}[idx%2], gs, hsk)
			}
		}
	}
	g.Op("cli toml disc frob a a own A")
	g.Op("cli toml disc sn a a own C")
}
