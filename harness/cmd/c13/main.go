package main

import (
	"bufio"
	"bytes"
	"fmt"
	"os"
	"path/filepath"
	"regexp"
	"runtime/debug"
	"strconv"
	"strings"

	"hop.computer/hop/cyclist"
	. "hopverif/hvlib"
)

// C13 — the Cyclist duplex.  A case is one program over the exported API of cyclist.Cyclist
// (hash and keyed mode, every initialisation incl. key/id lengths at the 136-byte limit where the
// Go code panics, operand lengths around the 136-byte rate boundaries up to ~1 KiB).  Every
// output byte is printed and compared with the Lean transcription of the Cyclist paper's
// algorithms over the Lean Keccak-p[1600,12].
//
// The run side keeps a *second* object (the peer): it performs the mirror program — it decrypts
// what the first object encrypted and encrypts what the first object decrypted, everything else
// equal.  If the peer's plaintext/ciphertext/squeezed bytes ever differ from the first object's
// the output line gets the suffix " desync" (the model, for which C13_mirror_programs is proved,
// never prints it).
//
// This binary is built twice by the check: normally (assembly permutation on amd64) and with the
// tags purego,appengine (portable permutation of cyclist/keccakf.go).

func main() { Main(map[string]*Suite{"C13": {Gen: gen, Run: run}}) }

// repoDir finds the hop-go checkout this binary was built against (the `replace` target)
func repoDir() string {
	if bi, ok := debug.ReadBuildInfo(); ok {
		for _, d := range bi.Deps {
			if d.Path == "hop.computer/hop" && d.Replace != nil {
				return d.Replace.Path
			}
		}
	}
	if r := os.Getenv("HOP_REPO"); r != "" {
		return r
	}
	return "/repo"
}

var boundary = []int{0, 1, 2, 7, 8, 9, 31, 32, 33, 134, 135, 136, 137, 138, 199, 200, 201, 271, 272, 273, 274,
	407, 408, 409, 543, 544, 545, 680, 1023, 1024}

func pickLen(g *GenCtx) int {
	switch g.R.Intn(10) {
	case 0, 1, 2, 3, 4:
		return Pick(g.R, boundary)
	case 5, 6:
		return g.R.Intn(40)
	case 7:
		return 136*g.R.Intn(8) + g.R.Intn(3) - 1 // 136k-1, 136k, 136k+1 (negative: clamped to 0)
	default:
		return g.R.Intn(1100)
	}
}

func data(g *GenCtx, n int) []byte {
	if n < 0 {
		n = 0
	}
	switch g.R.Intn(6) {
	case 0:
		return make([]byte, n) // zeros
	case 1:
		return bytes.Repeat([]byte{0xff}, n)
	default:
		return g.R.Bytes(n)
	}
}

var reLine = regexp.MustCompile(`^([\w-]+)\[(\d*)\]:(.*)$`)

func spacedHex(s string) []byte {
	b, _ := Unhex(strings.ReplaceAll(strings.TrimSpace(s), " ", ""))
	return b
}

// vectors replays cyclist/testdata/*.txt: the published value rides on the operation as a last
// word `=<hex>`; the run side appends " !vector" when the real code's output differs from it, the
// model ignores the word, so a deviation of either side from the vector shows in the diff.
func vectors(g *GenCtx) {
	files, _ := filepath.Glob(filepath.Join(repoDir(), "cyclist", "testdata", "*.txt"))
	if len(files) == 0 {
		// the published vector anchors the model: without it the check must not pass
		fmt.Fprintln(os.Stderr, "no vector files in", filepath.Join(repoDir(), "cyclist", "testdata"))
		os.Exit(1)
	}
	for _, fn := range files {
		raw, err := os.ReadFile(fn)
		if err != nil {
			continue
		}
		key := make([]byte, 32) // newDefaultKey() of cyclist_test.go / testdata/README.md
		for i := range key {
			key[i] = byte(i)
		}
		script := []string{"new", fmt.Sprintf("init %s - -", HexOrDash(key))}
		add := func(format string, a ...any) { script = append(script, fmt.Sprintf(format, a...)) }
		var prev []byte
		for _, line := range strings.Split(string(raw), "\n") {
			m := reLine.FindStringSubmatch(line)
			if m == nil {
				continue
			}
			val := spacedHex(m[3])
			switch m[1] {
			case "absorb":
				add("absorb %s", HexOrDash(val))
			case "squeeze":
				n, _ := strconv.Atoi(m[2])
				if len(val) > 0 {
					add("sq %d =%s", n, HexOrDash(val))
				} else {
					add("sq %d", n)
				}
			case "encrypt-ir", "encrypt-ri":
				prev = val
			case "decrypt-ir", "decrypt-ri":
				add("enc %s =%s", HexOrDash(prev), HexOrDash(val))
			}
		}
		g.Op("new ; %s", strings.Join(script, " ; "))
	}
}

func genInit(g *GenCtx) (keyed bool) {
	switch g.R.Intn(12) {
	case 0:
		return false // NewCyclist only
	case 1:
		g.Op("empty")
		return false
	case 2: // empty key: hash mode whatever id and counter are
		g.Op("init - %s %s", HexOrDash(g.R.Bytes(g.R.Intn(5))), HexOrDash(g.R.Bytes(g.R.Intn(5))))
		return false
	}
	klen := Pick(g.R, []int{1, 2, 16, 16, 32, 32, 32, 64, 100, 133, 134, 135, 136, 137, 200})
	var idlen int
	switch g.R.Intn(6) {
	case 0, 1:
		idlen = 0
	case 2:
		idlen = g.R.Intn(20)
	default: // around the limit |key| + |id| = 135 (largest accepted) / 136 (panics)
		idlen = 135 - klen + g.R.Intn(5) - 3
		if idlen < 0 {
			idlen = 0
		}
	}
	clen := Pick(g.R, []int{0, 0, 0, 1, 2, 3, 8, 17})
	g.Op("init %s %s %s", HexOrDash(data(g, klen)), HexOrDash(data(g, idlen)), HexOrDash(data(g, clen)))
	return klen+idlen < 136
}

func genOps(g *GenCtx, keyed bool, n int) {
	for i := 0; i < n; i++ {
		k := g.R.Intn(16)
		if !keyed && k >= 4 && k < 12 && !g.R.Chance(1, 6) {
			k = g.R.Intn(4) // mostly the hash-mode operations; sometimes the panicking ones
			if k >= 2 {
				k = 12
			}
		}
		switch {
		case k < 4:
			g.Op("absorb %s", HexOrDash(data(g, pickLen(g))))
		case k < 7:
			g.Op("%s %s", Pick(g.R, []string{"enc", "enc", "enc", "enci"}), HexOrDash(data(g, pickLen(g))))
		case k < 10:
			g.Op("%s %s", Pick(g.R, []string{"dec", "dec", "dec", "deci"}), HexOrDash(data(g, pickLen(g))))
		case k < 11:
			g.Op("ratchet")
		case k < 12:
			g.Op("sqk %d", Pick(g.R, []int{0, 1, 16, 32, 64, 135, 136, 137, 272, 273}))
		case k < 15:
			if g.R.Chance(3, 4) {
				g.Op("sq %d", Pick(g.R, []int{0, 1, 16, 16, 32, 32, 64}))
			} else {
				g.Op("sq %d", pickLen(g))
			}
		default:
			keyed = genInit(g) // re-initialise an object in use
		}
	}
	g.Op("sq 32")
}

func gen(g *GenCtx) {
	if g.Parts > 1 {
		// every part gets its own stream (hvlib seeds all parts alike)
		g.R = NewRng(g.R.U64() ^ uint64(g.Part+1)*0x9E3779B97F4A7C15)
	}
	if g.Part == 0 {
		vectors(g)
		// every operand length 0..280 once per operation kind, keyed mode (two rate boundaries)
		key := g.R.Bytes(32)
		for n := 0; n <= 280; n++ {
			g.Op("new")
			g.Op("init %s - %s", HexOrDash(key), HexOrDash(g.R.Bytes(n%3)))
			g.Op("absorb %s", HexOrDash(g.R.Bytes(n)))
			g.Op("enc %s", HexOrDash(g.R.Bytes(n)))
			g.Op("dec %s", HexOrDash(g.R.Bytes(n)))
			g.Op("sq %d", n)
			g.Op("sqk %d", n)
			g.Op("ratchet")
			g.Op("sq 16")
		}
		// hash mode: every absorb/squeeze length 0..280
		for n := 0; n <= 280; n++ {
			g.Op("new")
			g.Op("absorb %s", HexOrDash(g.R.Bytes(n)))
			g.Op("sq %d", n)
			g.Op("absorb -")
			g.Op("sq 32")
		}
		// all (|key|, |id|) pairs around the limit, with and without a counter
		for klen := 1; klen <= 140; klen++ {
			for _, idlen := range []int{0, 1, 134 - klen, 135 - klen, 136 - klen, 137 - klen} {
				if idlen < 0 {
					continue
				}
				g.Op("new")
				g.Op("init %s %s %s", HexOrDash(g.R.Bytes(klen)), HexOrDash(g.R.Bytes(idlen)), HexOrDash(g.R.Bytes(klen%3)))
				g.Op("sq 16")
				g.Op("enc 0102")
			}
		}
		malformed(g)
	}
	n, maxOps := 2000, 12
	if g.Thorough() {
		n, maxOps = 200000/g.Parts, 24
		// all operand-length pairs across two rate boundaries (enc then dec / absorb then enc)
		idx := 0
		key := []byte("0123456789abcdef0123456789abcdef")
		edge := []int{0, 1, 135, 136, 137, 271, 272, 273}
		for a := 0; a <= 280; a++ {
			for _, b := range edge {
				idx++
				if idx%g.Parts != g.Part {
					continue
				}
				g.Op("new")
				g.Op("init %s - -", HexOrDash(key))
				g.Op("enc %s", HexOrDash(g.R.Bytes(a)))
				g.Op("dec %s", HexOrDash(g.R.Bytes(b)))
				g.Op("absorb %s", HexOrDash(g.R.Bytes(b)))
				g.Op("enc %s", HexOrDash(g.R.Bytes(a)))
				g.Op("sq %d", a)
				g.Op("sq 16")
			}
		}
	}
	for c := 0; c < n; c++ {
		g.Op("new")
		keyed := genInit(g)
		genOps(g, keyed, 1+g.R.Intn(maxOps))
	}
}

// malformed lines must answer bad-op on both sides and leave the object untouched
func malformed(g *GenCtx) {
	g.Op("new")
	g.Op("init 000102030405060708090a0b0c0d0e0f - -")
	for _, l := range []string{
		"enc", "=00", "enc =00", "enc zz", "enc 0", "enc 01 02", "dec 0g", "absorb", "absorb 123", "sq", "sq x", "sq -1", "sq 1 2",
		"sqk", "sqk 0x10", "ratchet 1", "init", "init 00", "init 00 00", "init 00 00 00 00", "init 0 - -",
		"empty 1", "frobnicate", "want 00", "ENC 00",
	} {
		g.Op("%s", l)
		if g.R.Chance(1, 2) {
			g.Op("sq 8")
		}
	}
	g.Op("enc 00ff")
	g.Op("sq 16")
	g.Op("new 1") // a malformed `new` is a case of its own
	g.Op("sq 16")
}

// ---- run ----

type pair struct {
	a, b *cyclist.Cyclist
}

func run(in *bufio.Scanner, out *bufio.Writer) {
	p := pair{cyclist.NewCyclist(), cyclist.NewCyclist()}
	for in.Scan() {
		f := strings.Fields(in.Text())
		res, script := Script(f, p.exec)
		if !script {
			res = ExecExpect(f, p.exec)
		}
		out.WriteString(res)
		out.WriteByte('\n')
	}
}

// both runs f on the first object and on the peer; a panic on either is the observable "panic"
func (p *pair) both(f func(c *cyclist.Cyclist) []byte) string {
	var ya, yb []byte
	ra := Guard(func() string { ya = f(p.a); return "" })
	rb := Guard(func() string { yb = f(p.b); return "" })
	if ra == "panic" || rb == "panic" {
		if ra != rb {
			return "panic desync"
		}
		return "panic"
	}
	if ya == nil {
		return "ok"
	}
	s := HexOrDash(ya)
	if !bytes.Equal(ya, yb) {
		s += " desync"
	}
	return s
}

func (p *pair) exec(f []string) string {
	switch {
	case len(f) == 1 && f[0] == "new":
		p.a, p.b = cyclist.NewCyclist(), cyclist.NewCyclist()
		return "ok"
	case len(f) == 1 && f[0] == "empty":
		return p.both(func(c *cyclist.Cyclist) []byte { c.InitializeEmpty(); return nil })
	case len(f) == 4 && f[0] == "init":
		k, ok1 := Unhex(f[1])
		id, ok2 := Unhex(f[2])
		ctr, ok3 := Unhex(f[3])
		if !ok1 || !ok2 || !ok3 {
			return "bad-op"
		}
		return p.both(func(c *cyclist.Cyclist) []byte { c.Initialize(k, id, ctr); return nil })
	case len(f) == 2 && f[0] == "absorb":
		x, ok := Unhex(f[1])
		if !ok {
			return "bad-op"
		}
		return p.both(func(c *cyclist.Cyclist) []byte { c.Absorb(x); return nil })
	case len(f) == 2 && (f[0] == "enci" || f[0] == "deci"):
		// output and input are the same buffer, on both objects ("exact overlap", as crypto/cipher allows
		// for every stream operation; Encrypt keeps its own copy of the plaintext for this)
		x, ok := Unhex(f[1])
		if !ok {
			return "bad-op"
		}
		enc := f[0] == "enci"
		y := append([]byte{}, x...)
		ra := Guard(func() string {
			if enc {
				p.a.Encrypt(y, y)
			} else {
				p.a.Decrypt(y, y)
			}
			return ""
		})
		z := append([]byte{}, y...)
		if ra == "panic" {
			z = append([]byte{}, x...)
		}
		rb := Guard(func() string {
			if enc {
				p.b.Decrypt(z, z)
			} else {
				p.b.Encrypt(z, z)
			}
			return ""
		})
		if ra == "panic" {
			if rb != "panic" {
				return "panic desync"
			}
			return "panic"
		}
		s := HexOrDash(y)
		if rb == "panic" || !bytes.Equal(z, x) {
			s += " desync"
		}
		return s
	case len(f) == 2 && (f[0] == "enc" || f[0] == "dec"):
		x, ok := Unhex(f[1])
		if !ok {
			return "bad-op"
		}
		// first object performs the operation; the peer performs the opposite one on the result
		y := make([]byte, len(x))
		z := make([]byte, len(x))
		enc := f[0] == "enc"
		ra := Guard(func() string {
			if enc {
				p.a.Encrypt(y, x)
			} else {
				p.a.Decrypt(y, x)
			}
			return ""
		})
		if ra == "panic" {
			// the peer is in the same mode: it must refuse too
			rb := Guard(func() string {
				if enc {
					p.b.Decrypt(z, x)
				} else {
					p.b.Encrypt(z, x)
				}
				return ""
			})
			if rb != "panic" {
				return "panic desync"
			}
			return "panic"
		}
		rb := Guard(func() string {
			if enc {
				p.b.Decrypt(z, y)
			} else {
				p.b.Encrypt(z, y)
			}
			return ""
		})
		s := HexOrDash(y)
		if rb == "panic" || !bytes.Equal(z, x) {
			s += " desync"
		}
		return s
	case len(f) == 2 && (f[0] == "sq" || f[0] == "sqk"):
		n, err := strconv.ParseUint(f[1], 10, 24)
		if err != nil || strings.HasPrefix(f[1], "+") {
			return "bad-op"
		}
		key := f[0] == "sqk"
		return p.both(func(c *cyclist.Cyclist) []byte {
			y := make([]byte, n)
			if key {
				c.SqueezeKey(y)
			} else {
				c.Squeeze(y)
			}
			if n == 0 {
				return []byte{} // non-nil: "-"
			}
			return y
		})
	case len(f) == 1 && f[0] == "ratchet":
		return p.both(func(c *cyclist.Cyclist) []byte { c.Ratchet(); return nil })
	}
	return "bad-op"
}
