package main

import (
	"encoding/binary"
	"fmt"

	. "hopverif/hvlib"
	"hopverif/muxh"
)

// C11 (frame half) — whatever frames an authenticated peer sends, the muxer does not panic, keeps
// serving its other tubes and can still be stopped.
//
// A case: a real Muxer on a scripted MsgConn; a victim tube V and a second tube T are opened and
// carry some traffic; a batch of junk datagrams follows (every flag combination x tube ids x
// manipulated length fields x acknowledgement / frame numbers inconsistent with what was sent,
// truncated and random datagrams, REQ floods beyond the accept queue); then V must still deliver
// what is sent to it in order, a write on V must leave the muxer, and Stop must return.  Cases run
// in child processes so that a panic in a muxer goroutine is the observable `panic`.

func main() {
	Main(map[string]*Suite{
		"C11":       {Gen: genC11, Run: muxh.RunIsolated("C11worker", 32)},
		"C11worker": {Gen: func(*GenCtx) {}, Run: muxh.Exec},
		// the back-to-back request+FIN cases alone (also run by C16's check: shutdown of tubes whose
		// initiation goroutine was overtaken)
		"C11fin": {Gen: func(g *GenCtx) { genFin(g, 6) }, Run: muxh.RunIsolated("C11worker", 8)},
	})
}

type tube struct {
	rel  bool
	id   byte
	next uint32 // next honest frame number (reliable)
	sent int    // application writes so far
}

type gen struct {
	g      *GenCtx
	parity int
	salt   uint64
}

func (x *gen) raw(b []byte) { x.g.Op("raw %s", HexOrDash(b)) }

func letter(rel bool) string {
	if rel {
		return "r"
	}
	return "u"
}

func relFlag(rel bool) string {
	if rel {
		return "L"
	}
	return ""
}

// junk payload: a function of (tube, frame number) so that equal numbers carry equal content
func (x *gen) payload(id byte, no uint32, max int) []byte {
	r := NewRng(x.salt ^ uint64(id)<<40 ^ uint64(no))
	return r.Bytes(1 + r.Intn(max))
}

// open a tube from the peer's side (REQ) and accept it
func (x *gen) openRemote(rel bool, id byte, ty byte) *tube {
	fl := "Q" + relFlag(rel)
	if rel {
		fl += "A"
	}
	x.raw(muxh.Init(id, fl, ty))
	x.g.Op("accept")
	return &tube{rel: rel, id: id, next: 1}
}

// honest data for the tube, then read it back
func (x *gen) traffic(t *tube, n int) {
	for i := 0; i < n; i++ {
		d := x.g.R.Bytes(1 + x.g.R.Intn(6))
		if t.rel {
			x.raw(muxh.Frame(t.id, "L", 1, t.next, d))
			t.next++
		} else {
			x.raw(muxh.Frame(t.id, "-", 0, uint32(i), d))
		}
	}
	x.g.Op("read %s %d %d", letter(t.rel), t.id, 64)
	if !t.rel {
		for i := 1; i < n; i++ {
			x.g.Op("read u %d 64", t.id)
		}
	}
}

func (x *gen) write(t *tube) {
	if t.sent >= 4 {
		return
	}
	t.sent++
	x.g.Op("wr %s %d %s", letter(t.rel), t.id, HexOrDash(x.g.R.Bytes(1+x.g.R.Intn(8))))
}

var allFlags = []string{"Q", "P", "L", "A", "F", "T"}

func flagCombo(m int) string {
	s := ""
	for i, f := range allFlags {
		if m&(1<<i) != 0 {
			s += f
		}
	}
	if s == "" {
		return "-"
	}
	return s
}

func setLen(b []byte, l int) []byte {
	c := append([]byte(nil), b...)
	if len(c) >= 4 {
		binary.BigEndian.PutUint16(c[2:4], uint16(l))
	}
	return c
}

// junk: one batch of a chosen family
func (x *gen) junk(v, t *tube, unused byte) {
	g := x.g
	targets := []byte{t.id, t.id, unused, unused, v.id}
	farNo := func(base uint32) uint32 { // numbers that never collide with honest traffic of the case
		return base%64 + Pick(g.R, []uint32{500, 600, 999, 1000, 1001, 5000, 1 << 31, 1<<32 - 100})
	}
	switch fam := g.R.Intn(7); fam {
	case 0: // every flag combination on one target
		id := Pick(g.R, targets)
		start := g.R.Intn(64)
		for k := 0; k < 64; k++ {
			m := (start + k) % 64
			no := farNo(uint32(m))
			var d []byte
			if g.R.Chance(2, 3) {
				d = x.payload(id, no, 5)
			}
			x.raw(muxh.Frame(id, flagCombo(m), Pick(g.R, []uint32{0, 1, 2, 7, 1000, 1 << 31, 1<<32 - 1}), no, d))
		}
	case 1: // length fields on a valid frame
		for k := 0; k < 12; k++ {
			id := Pick(g.R, targets)
			no := farNo(uint32(k))
			d := x.payload(id, no, 40)
			b := muxh.Frame(id, Pick(g.R, []string{"L", "LA", "-", "LF", "QL", "Q", "PL"}), 1, no, d)
			n := len(b)
			for _, l := range []int{0, 1, n - 12, n - 11, n - 13, 65523, 65524, 65535, 32768} {
				if l < 0 {
					continue
				}
				x.raw(setLen(b, l))
			}
		}
	case 2: // truncated datagrams
		id := Pick(g.R, targets)
		b := muxh.Frame(id, Pick(g.R, []string{"L", "LA", "QL", "PL", "Q", "-"}), 3, farNo(3), x.payload(id, 3, 9))
		for l := 0; l <= len(b); l++ {
			x.raw(b[:l])
		}
	case 3: // acknowledgement and frame numbers inconsistent with what was sent
		for _, tb := range []*tube{t, v} {
			if !tb.rel {
				continue
			}
			x.write(tb)
			for _, a := range []uint32{0, 1, 2, 3, 9, 1000, 1 << 31, 1<<32 - 1, 5} {
				x.raw(muxh.Frame(tb.id, Pick(g.R, []string{"LA", "LAT", "LAF"}), a, farNo(a), nil))
				if tb == v {
					break // one wild ACK is enough on the victim
				}
			}
		}
		for k := 0; k < 10; k++ {
			no := farNo(uint32(g.R.Intn(1000)))
			x.raw(muxh.Frame(t.id, relFlag(t.rel)+Pick(g.R, []string{"", "T", "A"}), 1, no, x.payload(t.id, no, 4)))
		}
	case 4: // random datagrams
		for k := 0; k < 40; k++ {
			b := g.R.Bytes(Pick(g.R, []int{0, 1, 9, 10, 11, 12, 13, 20, 64, 300}))
			if len(b) > 0 && g.R.Chance(1, 2) {
				b[0] = Pick(g.R, targets)
			}
			if len(b) >= 12 && g.R.Chance(1, 2) {
				// keep frame numbers away from honest traffic when the datagram lands on a reliable tube
				binary.BigEndian.PutUint32(b[8:12], farNo(uint32(k)))
				b = setLen(b, 0)
			} else if len(b) >= 2 {
				b[1] &^= 4 // otherwise not REL: cannot put arbitrary data into a reliable window
			}
			x.raw(b)
		}
	case 5: // stale bytes: a long datagram, then a short frame for the victim whose length field overshoots
		x.raw(muxh.Frame(unused, "-", 0, 0, g.R.Bytes(60)))
		d := g.R.Bytes(3)
		b := muxh.Frame(v.id, relFlag(v.rel), 1, v.next, d)
		x.raw(setLen(b, len(d)+Pick(g.R, []int{1, 2, 7, 20})))
		x.g.Op("read %s %d 64", letter(v.rel), v.id)
	case 6: // REQ flood beyond the accept queue, nobody accepting
		rel := g.R.Chance(1, 2)
		n := Pick(g.R, []int{100, 127, 128, 129, 130, 200})
		id := 0
		for k := 0; k < n && id < 256; id++ {
			if byte(id) == v.id || byte(id) == t.id {
				continue
			}
			fl := "Q" + relFlag(rel)
			x.raw(muxh.Init(byte(id), fl, byte(g.R.Intn(8))))
			k++
		}
		for k := 0; k < 3; k++ {
			g.Op("accept")
		}
		x.raw(muxh.Init(254, "QL", 1))
		x.raw(muxh.Init(255, "Q", 1))
		g.Op("has r 254")
		g.Op("has u 255")
	}
}

func genCase(g *GenCtx) {
	x := &gen{g: g, parity: g.R.Intn(2), salt: g.R.U64()}
	g.Op("new %d", x.parity)
	ids := []byte{byte(3 + g.R.Intn(20)), byte(30 + g.R.Intn(20)), byte(60 + g.R.Intn(100))}
	v := x.openRemote(g.R.Chance(3, 4), ids[0], byte(1+g.R.Intn(7)))
	var t *tube
	if g.R.Chance(1, 3) {
		// locally created tube, initiated by the peer's RESP
		rel := g.R.Chance(2, 3)
		g.Op("create %s %d", letter(rel), 2)
		id := byte(x.parity)
		fl := "P" + relFlag(rel)
		if rel {
			fl += "A"
		}
		x.raw(muxh.Init(id, fl, 2))
		t = &tube{rel: rel, id: id, next: 1}
	} else {
		t = x.openRemote(g.R.Chance(1, 2), ids[1], 3)
	}
	x.traffic(v, 1+g.R.Intn(3))
	x.traffic(t, g.R.Intn(3))
	nb := 1 + g.R.Intn(2)
	for i := 0; i < nb; i++ {
		x.junk(v, t, ids[2])
	}
	// the victim still works
	x.traffic(v, 2)
	x.write(v)
	g.Op("has %s %d", letter(v.rel), v.id)
	g.Op("has %s %d", letter(t.rel), t.id)
	g.Op("accept")
	g.Op("stop")
}

// genFin: a peer that sends the request for a tube and its FIN back to back: the FIN may be processed
// before the goroutine the request started has finished.  Whatever the order, the tubes can be
// closed, traffic on the other tube flows and Stop returns.
func genFin(g *GenCtx, n int) {
	for k := 0; k < n; k++ {
		x := &gen{g: g, parity: 0, salt: 1}
		g.Op("new 0")
		v := x.openRemote(true, 3, 7)
		x.traffic(v, 1)
		for id := 20; id < 52; id += 2 {
			g.Op("rawnw %s", HexOrDash(muxh.Init(byte(id+k%2), "QLA", 2)))
			g.Op("rawnw %s", HexOrDash(muxh.Frame(byte(id+k%2), "LF", 0, 1, nil)))
		}
		for id := 20; id < 52; id += 2 {
			g.Op("accept")
		}
		for id := 20; id < 52; id += 8 {
			g.Op("reap r %d", id+k%2)
		}
		x.traffic(v, 1)
		x.write(v)
		g.Op("stop")
	}
}

func genC11(g *GenCtx) {
	// fixed cases (always first): the inputs DESIGN.md names
	fixed := func(body func(x *gen, v *tube)) {
		x := &gen{g: g, parity: 0, salt: 1}
		g.Op("new 0")
		v := x.openRemote(true, 3, 7)
		x.traffic(v, 1)
		body(x, v)
		x.traffic(v, 1)
		x.write(v)
		g.Op("stop")
	}
	fixed(func(x *gen, v *tube) { // F14: ACK beyond anything sent
		x.raw(muxh.Frame(3, "LA", 1000, 5, nil))
	})
	fixed(func(x *gen, v *tube) { // F15: length field >= 65524
		x.raw(setLen(muxh.Frame(9, "L", 1, 1, []byte{1, 2, 3}), 65524))
		x.raw(setLen(muxh.Frame(9, "L", 1, 1, []byte{1, 2, 3}), 65535))
	})
	fixed(func(x *gen, v *tube) { // F15: over-long length field reads the previous datagram
		x.raw(muxh.Frame(9, "-", 0, 0, []byte("previous datagram with secret bytes")))
		x.raw(setLen(muxh.Frame(3, "L", 1, v.next, []byte{0xAA}), 9))
		g.Op("read r 3 64")
	})
	fixed(func(x *gen, v *tube) { // F18: more REQs than the accept queue holds
		for id := 10; id < 10+130; id++ {
			x.raw(muxh.Init(byte(id), "QLA", 1))
		}
		g.Op("has r 137")
		g.Op("has r 138")
	})
	// an unreliable tube that nobody reads: its queue (maxBufferedPackets) fills, further datagrams and the
	// FIN are dropped, the receiver goes on; in the second case the reader makes room for the FIN
	for _, room := range []bool{false, true} {
		room := room
		fixed(func(x *gen, v *tube) {
			x.openRemote(false, 9, 4)
			for i := 0; i < 1000; i++ {
				x.raw(muxh.Frame(9, "-", 0, uint32(i), []byte{byte(i), byte(i >> 8)}))
			}
			if room {
				g.Op("read u 9 64")
			} else {
				x.raw(muxh.Frame(9, "-", 0, 1000, []byte{0xEE}))
			}
			x.raw(muxh.Frame(9, "F", 0, 1001, nil))
			x.raw(muxh.Frame(9, "-", 0, 1002, []byte{0xEF}))
			g.Op("read u 9 64")
			g.Op("read u 9 64")
		})
	}
	// the largest messages a peer can send (transport.MaxPlaintextSize = 64503 bytes): hop-go's own senders
	// stop at 12+32768, the receive buffer must not
	fixed(func(x *gen, v *tube) {
		x.openRemote(false, 9, 4)
		for _, n := range []int{32768, 32769, 40000, 64491} {
			x.raw(muxh.Frame(9, "-", 0, uint32(n), g.R.Bytes(n)))
			g.Op("read u 9 64")
			x.raw(muxh.Frame(77, "L", 1, 1, g.R.Bytes(n)))
		}
	})
	genFin(g, 3)
	// Stop while the peer's datagrams keep arriving: a request (retransmission) for a tube that is closed
	// but still in the map, a data frame, an ACK, junk - after the muxer's send queues were closed
	for p := 0; p < 2; p++ {
		for _, late := range [][]byte{muxh.Init(byte(p), "QLA", 2), muxh.Init(byte(p), "PLA", 2), muxh.Init(3, "QLA", 7), muxh.Init(3, "Q", 7),
			muxh.Frame(byte(p), "L", 1, 1, []byte("late")), muxh.Frame(byte(p), "LA", 2, 0, nil), muxh.Frame(byte(p), "LF", 0, 1, nil),
			muxh.Init(200, "QLA", 1), {1, 2, 3}} {
			// (a) every tube went through its close handshake before Stop: the transport stays open
			// until Stop closes it, the receiver is still there when the datagram arrives
			g.Op("new %d", p)
			g.Op("create r 2")
			g.Op("raw %s", HexOrDash(muxh.Init(byte(p), "PLA", 2)))
			g.Op("wr r %d %s", p, HexOrDash([]byte("x")))
			g.Op("shut r %d", p)
			g.Op("stopfeed %s", HexOrDash(late))
			// (b) with open tubes whose peer does not answer: Stop's fallback closes the transport first
			x := &gen{g: g, parity: p, salt: 1}
			g.Op("new %d", p)
			v := x.openRemote(true, 3, 7)
			x.traffic(v, 1)
			g.Op("create r 2")
			x.raw(muxh.Init(byte(p), "PLA", 2))
			g.Op("stopfeed %s", HexOrDash(late))
		}
	}
	// … and two of them: a request while Stop is still waiting for the tubes (the muxer is stopping), the
	// same request (the peer's retransmission) or traffic for that tube after the send queues were closed
	for p := 0; p < 2; p++ {
		for _, first := range [][]byte{muxh.Init(3, "Q", 7), muxh.Init(3, "QLA", 7), muxh.Init(byte(p), "Q", 2), muxh.Init(byte(1-p), "QLA", 5)} {
			for _, second := range [][]byte{first, muxh.Frame(first[0], "-", 0, 1, []byte("late")), muxh.Frame(first[0], "L", 1, 1, []byte("late"))} {
				// (a) an open tube whose peer stays silent keeps Stop waiting
				x := &gen{g: g, parity: p, salt: 1}
				g.Op("new %d", p)
				v := x.openRemote(true, 9, 7)
				x.traffic(v, 1)
				g.Op("stopfeed2 %s %s", HexOrDash(first), HexOrDash(second))
				// (b) nothing to wait for
				g.Op("new %d", p)
				g.Op("stopfeed2 %s %s", HexOrDash(first), HexOrDash(second))
			}
		}
	}
	n := 500
	if g.Thorough() {
		n = 16000 / g.Parts
	}
	for i := 0; i < n; i++ {
		genCase(g)
	}
	// malformed lines
	g.Op("new 0")
	g.Op("raw zz")
	g.Op("read r 300 1")
	g.Op("frobnicate")
	g.Op("stop")
	_ = fmt.Sprint
}
