package main

import (
	. "hopverif/hvlib"
	"hopverif/sess"
)

// C03 — established sessions under a datagram-level adversary (see harness/sess).
func main() { Main(map[string]*Suite{"C03": sess.New("mixed")}) }
