package main

import (
	"bufio"
	"fmt"
	"hop.computer/hop/cyclist"
	"strconv"
	"strings"
	"time"

	"hop.computer/hop/certs"
	"hop.computer/hop/hopserver"
	"hop.computer/hop/keys"
	"hop.computer/hop/kravatte"
	"hop.computer/hop/transport"
	"hopverif/hs"
	. "hopverif/hvlib"
	"hopverif/tnet"
)

// C10 — junk campaign against real transport endpoints.  A case:
//
//	new <hidden 0|1> <ncerts> <literal|star>   server with that many certificates / virtual hosts
//	est <cert>                       honest handshake for certificate <cert>, accepted       -> ok
//	t <msg> <cert> <n>               a fresh handshake whose message <msg> is cut to n bytes  -> ok
//	m <msg> <cert> <field> <kind>    … whose field <field> is set to zero|ones|rand|len+1|len-1|len0|lenmax -> ok
//	hdr <est> <type> <bodylen>       header copy (type, session id) of a live session + body  -> ok
//	sni <kind>                       a ClientAck naming empty|one|long|binary|star|dns|other  -> ok
//	r <len> <type> <seed>            random bytes                                             -> ok
//	cj <s0|s1|est> <len> <type>      junk delivered to a client that is in that state        -> ok
//	half <zerokey|randkey|junk|control-zerokey> <len>   a half-open session (ClientAck accepted, keys not yet
//	                                 derived) receives a datagram naming it, sealed that way  -> ok
//	probe                            fresh honest handshake + data on every established session -> hs=1 est=k/k
//
// A panic in an endpoint goroutine kills the harness process; the runner records `<crash>`.
func main() {
	Main(map[string]*Suite{"C10": {Gen: gen, Run: run}, "C10vec": {Gen: genVec, Run: runVec}})
}

// ---------------------------------------------------------------- suite C10vec
//
// `vec <hex>`: the real transport.DecryptCertificates (and through it readVector) on chosen decrypted
// bytes - two Cyclist objects in the same state, one encrypts the bytes, the other is handed to
// DecryptCertificates - compared with the Go-slice transcription Model/Dgram.lean that
// C10_vectors_no_panic speaks about.  -> ok <leafLen> <intermediateLen> | err | panic

func genVec(g *GenCtx) {
	emit := func(b []byte) { g.Op("vec %s", HexOrDash(b)) }
	be := func(n int) []byte { return []byte{byte(n >> 8), byte(n)} }
	// every total length up to 14 with every pair of announced lengths around what fits
	for total := 0; total <= 14; total++ {
		for l1 := 0; l1 <= total+2; l1++ {
			for l2 := 0; l2 <= total+2; l2++ {
				b := make([]byte, total)
				for i := range b {
					b[i] = byte(0xa0 + i)
				}
				copy(b, be(l1))
				if 2+l1+2 <= total {
					copy(b[2+l1:], be(l2))
				}
				emit(b)
			}
		}
	}
	n := 3000
	if g.Thorough() {
		n = 200000 / g.Parts
	}
	for i := 0; i < n; i++ {
		total := Pick(g.R, []int{0, 1, 2, 3, 4, 5, 64, 65, 200, 1000, 4000}) + g.R.Intn(4)
		b := g.R.Bytes(total)
		if total >= 2 {
			// first length: exact split points and their neighbours, the remaining length +-2, huge
			l1 := Pick(g.R, []int{0, 1, total - 4, total - 3, total - 2, total - 1, total, total + 1, g.R.Intn(total + 1), 65535})
			if l1 < 0 {
				l1 = 0
			}
			copy(b, be(l1))
			if 2+l1+2 <= total {
				rest := total - 2 - l1 - 2
				l2 := Pick(g.R, []int{rest, rest, rest - 1, rest + 1, rest + 2, 0, 65535, g.R.Intn(rest + 2)})
				if l2 < 0 {
					l2 = 0
				}
				copy(b[2+l1:], be(l2))
			}
		}
		emit(b)
	}
	g.Op("vec zz")
	g.Op("vec")
}

func runVec(in *bufio.Scanner, out *bufio.Writer) {
	for in.Scan() {
		f := strings.Fields(in.Text())
		res := "bad-op"
		if len(f) == 2 && f[0] == "vec" {
			if pt, ok := Unhex(f[1]); ok {
				res = Guard(func() string {
					var enc, dec cyclist.Cyclist
					key := []byte("C10vec: any key, the same on both sides")
					enc.Initialize(key, nil, nil)
					dec.Initialize(key, nil, nil)
					ct := make([]byte, len(pt))
					enc.Encrypt(ct, pt)
					leaf, inter, err := transport.DecryptCertificates(&dec, ct)
					if err != nil {
						return "err"
					}
					return fmt.Sprintf("ok %d %d", len(leaf), len(inter))
				})
			}
		}
		out.WriteString(res)
		out.WriteByte('\n')
		out.Flush()
	}
}

var xxMsgs = []string{"c2s0", "c2s1", "c2s2"}

var layouts = map[string][]int{
	"xx:c2s0": {4, 800, 16},
	"xx:c2s1": {4, 32, 800, 64, 256, 16},
	"xx:c2s2": {4, 4, -1, 16, 16},
	"ik:c2s0": {4, 800, 768, -1, 16, 8, 16},
}

func gen(g *GenCtx) {
	r := g.R
	cases := 16
	if g.Thorough() {
		cases = 600 / g.Parts
	}
	for c := 0; c < cases; c++ {
		hidden := c%2 == 1
		ncerts := 1 + c/2%3
		g.Op("new %d %d %s", b2i(hidden), ncerts, Pick(r, []string{"literal", "star"}))
		mode, msgs := "xx", xxMsgs
		if hidden {
			mode, msgs = "ik", []string{"c2s0"}
		}
		for i := 0; i < ncerts && i < 2; i++ {
			g.Op("est %d", i)
		}
		steps := 40
		if g.Thorough() {
			steps = 150
		}
		for s := 0; s < steps; s++ {
			cert := r.Intn(ncerts)
			switch k := r.Intn(20); {
			case k < 6:
				msg := Pick(r, msgs)
				// every field boundary +-1, plus random lengths
				lay := layouts[mode+":"+msg]
				var cuts []int
				pos := 0
				for _, f := range lay {
					if f < 0 {
						f = 300
					}
					cuts = append(cuts, pos, pos+1)
					if pos > 0 {
						cuts = append(cuts, pos-1)
					}
					pos += f
				}
				cuts = append(cuts, pos-1, r.Intn(pos), r.Intn(8), 3, 4, 7, 8)
				g.Op("t %s %d %d", msg, cert, Pick(r, cuts))
			case k < 10:
				msg := Pick(r, msgs)
				lay := layouts[mode+":"+msg]
				f := r.Intn(len(lay))
				kinds := []string{"zero", "ones", "rand"}
				if f == 0 {
					kinds = []string{"len+1", "len-1", "len0", "lenmax", "rand", "len+16", "len-16"}
				}
				g.Op("m %s %d %d %s", msg, cert, f, Pick(r, kinds))
			case k < 13:
				g.Op("hdr %d %d %d", r.Intn(2), Pick(r, []int{16, 128, 0x11, 0x90, 0}), Pick(r, []int{0, 1, 7, 8, 27, 28, 39, 40, 100}))
			case k < 15 && !hidden:
				g.Op("sni %s", Pick(r, []string{"empty", "one", "long", "binary", "star", "dns", "other", "empty", "type05", "type7f", "typeff", "ipv4", "ipv6"}))
			case k < 17:
				g.Op("r %d %d %d", Pick(r, []int{0, 1, 3, 4, 5, 8, 20, 36, 48, 820, 852, 1172, 1700, 4000, 65000}),
					Pick(r, []int{1, 2, 3, 4, 5, 8, 9, 16, 128, 0x7f, 0xff}), r.Intn(1000))
			case k < 18 && !hidden:
				// a session that exists but has no keys yet (ClientAck accepted, ClientAuth pending):
				// datagrams naming it, sealed under the all-zero key, a random key, or not at all
				g.Op("half %s %d", Pick(r, []string{"zerokey", "randkey", "junk", "control-zerokey"}), Pick(r, []int{0, 1, 32, 100}))
			case k < 19:
				g.Op("cj %s %d %d", Pick(r, []string{"s0", "s1", "est"}), Pick(r, []int{0, 3, 4, 8, 36, 47, 48, 100, 852, 900, 2000}),
					Pick(r, []int{2, 4, 9, 16, 128, 1, 0x7f}))
			default:
				g.Op("probe")
			}
		}
		g.Op("probe")
	}
}

func b2i(v bool) int {
	if v {
		return 1
	}
	return 0
}

type vhost struct {
	key  *keys.X25519KeyPair
	kem  *keys.KEMKeyPair
	cert *transport.Certificate
	name string
}

type world struct {
	hidden  bool
	sv      *tnet.Srv
	vh      []vhost
	est     []*tnet.Cli
	handles []*transport.Handle
	nextA   int
	junkCl  []*tnet.Cli
}

func (w *world) close() {
	if w == nil {
		return
	}
	for _, c := range w.est {
		c.Close()
	}
	for _, c := range w.junkCl {
		c.Close()
	}
	w.sv.Close()
}

func newWorld(hidden bool, ncerts int, pat string) *world {
	p := hs.PKI()
	w := &world{hidden: hidden, nextA: 1}
	var vhosts hopserver.VirtualHosts
	var list []*transport.Certificate
	for i := 0; i < ncerts; i++ {
		k := keys.GenerateNewX25519KeyPair()
		kem, err := keys.GenerateKEMKeyPair(cryptoRand{})
		if err != nil {
			panic(err)
		}
		name := fmt.Sprintf("host%d.example", i)
		leaf := p.Leaf(k.Public, certs.RawStringName(name))
		rawLeaf, _ := leaf.Marshal()
		rawInter, _ := p.Inter.Marshal()
		tc := &transport.Certificate{RawLeaf: rawLeaf, RawIntermediate: rawInter, Exchanger: k, KEMKeyPair: kem, Leaf: leaf,
			HostNames: []string{name}}
		pattern := name
		if pat == "star" {
			pattern = fmt.Sprintf("host%d.*", i)
		}
		vhosts = append(vhosts, hopserver.VirtualHost{Pattern: pattern, Certificate: *tc})
		list = append(list, tc)
		w.vh = append(w.vh, vhost{k, kem, tc, name})
	}
	cfg := transport.ServerConfig{
		ClientVerify: p.ClientVerify(tnet.PolicyStore), IsHidden: hidden, MaxPendingConnections: 64,
		// the same glue as hopserver.NewHopServer installs: first virtual host whose pattern matches
		GetCertificate: func(info transport.ClientHandshakeInfo) (*transport.Certificate, error) {
			if h := vhosts.Match(string(info.ServerName.Label)); h != nil {
				return &h.Certificate, nil
			}
			return nil, fmt.Errorf("no host block")
		},
		GetCertList: func() ([]*transport.Certificate, error) { return list, nil },
	}
	w.sv = tnet.NewSrv(cfg)
	return w
}

type cryptoRand struct{}

func (cryptoRand) Read(b []byte) (int, error) { return hs.RandRead(b) }

func (w *world) clientFor(cert int, name certs.Name) *tnet.Cli {
	p := hs.PKI()
	k := keys.GenerateNewX25519KeyPair()
	cfg := transport.ClientConfig{Exchanger: k, Leaf: p.Leaf(k.Public, certs.RawStringName("client")), Intermediate: p.Inter,
		Verify: transport.VerifyConfig{Store: p.Store, Name: name}}
	if w.hidden {
		pub := w.vh[cert].kem.Public
		cfg.ServerKEMKey = &pub
	}
	w.nextA++
	return tnet.NewCli(tnet.Addr(w.nextA), cfg)
}

func (w *world) honest(cert int) (*tnet.Cli, *transport.Handle) {
	cl := w.clientFor(cert, certs.RawStringName(w.vh[cert].name))
	tnet.Pump(w.sv, cl, cl.Local, nil)
	if !cl.Finished() || cl.HSErr != nil {
		cl.Close()
		return nil, nil
	}
	if _, _, p := w.sv.S.VerifTableSizes(); p == 0 {
		cl.Close()
		return nil, nil
	}
	h, err := w.sv.S.AcceptTimeout(5 * time.Second)
	if err != nil {
		cl.Close()
		return nil, nil
	}
	return cl, h
}

func (w *world) drainAccepts() {
	for {
		if _, _, p := w.sv.S.VerifTableSizes(); p == 0 {
			return
		}
		if h, err := w.sv.S.AcceptTimeout(time.Second); err == nil {
			h.Close()
		}
	}
}

func fieldAt(lay []int, total, field int) (int, int) {
	n := total
	for _, s := range lay {
		if s > 0 {
			n -= s
		}
	}
	pos := 0
	for i, s := range lay {
		if s < 0 {
			s = n
		}
		if i == field {
			return pos, s
		}
		pos += s
	}
	return 0, 0
}

func (w *world) exec(f []string) string {
	num := func(s string) int { v, _ := strconv.Atoi(s); return v }
	mode := "xx"
	if w.hidden {
		mode = "ik"
	}
	switch {
	case len(f) == 2 && f[0] == "est":
		if num(f[1]) >= len(w.vh) {
			return "bad-op"
		}
		cl, h := w.honest(num(f[1]))
		if cl == nil {
			return "fail"
		}
		w.est = append(w.est, cl)
		w.handles = append(w.handles, h)
		return "ok"
	case (len(f) == 4 && f[0] == "t") || (len(f) == 5 && f[0] == "m"):
		lay := layouts[mode+":"+f[1]]
		cert := num(f[2])
		if lay == nil || cert >= len(w.vh) {
			return "bad-op"
		}
		cl := w.clientFor(cert, certs.RawStringName(w.vh[cert].name))
		w.junkCl = append(w.junkCl, cl)
		hook := func(dir string, idx int, data []byte) [][]byte {
			if fmt.Sprintf("%s%d", dir, idx) != f[1] {
				return [][]byte{data}
			}
			d := append([]byte(nil), data...)
			if f[0] == "t" {
				n := num(f[3])
				if n > len(d) {
					n = len(d)
				}
				return [][]byte{d[:n]}
			}
			s, l := fieldAt(lay, len(d), num(f[3]))
			switch f[4] {
			case "zero":
				for i := s; i < s+l; i++ {
					d[i] = 0
				}
			case "ones":
				for i := s; i < s+l; i++ {
					d[i] = 0xff
				}
			case "rand":
				copy(d[s:s+l], tnet.Stream(uint64(len(d)+s), l+8))
			default: // the 16-bit length field in header bytes 2..3
				cur := int(d[2])<<8 | int(d[3])
				switch f[4] {
				case "len+1":
					cur++
				case "len-1":
					cur--
				case "len+16":
					cur += 16
				case "len-16":
					cur -= 16
				case "len0":
					cur = 0
				case "lenmax":
					cur = 0xffff
				}
				d[2], d[3] = byte(cur>>8), byte(cur)
			}
			return [][]byte{d}
		}
		tnet.Pump(w.sv, cl, cl.Local, hook)
		w.drainAccepts()
		return "ok"
	case len(f) == 4 && f[0] == "hdr":
		if num(f[1]) >= len(w.est) {
			return "ok"
		}
		sid := w.handles[num(f[1])].VerifSession().SessionID
		body := tnet.Stream(uint64(num(f[3])*7+num(f[2])), num(f[3])+8)[:num(f[3])]
		d := append([]byte{byte(num(f[2])), 0, 0, 0, sid[0], sid[1], sid[2], sid[3]}, body...)
		if res := w.sv.Deliver(d, tnet.Addr(90)); res != "ok" {
			return res
		}
		// the same header at the client of that session
		if res := w.est[num(f[1])].Deliver(d, tnet.ServerAddr); res != "ok" {
			return res
		}
		return "ok"
	case len(f) == 2 && f[0] == "sni":
		var name certs.Name
		switch f[1] {
		case "empty":
			name = certs.Name{Type: certs.TypeRaw, Label: []byte{}}
		case "one":
			name = certs.RawStringName("h")
		case "long":
			name = certs.RawStringName(strings.Repeat("x", 250))
		case "binary":
			name = certs.Name{Type: certs.TypeRaw, Label: []byte{0xff, 0x00, 0xfe, '*', 0x80}}
		case "star":
			name = certs.RawStringName("*")
		case "dns":
			name = certs.DNSName("host0.example")
		case "type05":
			name = certs.Name{Type: 0x05, Label: []byte("host0.example")}
		case "type7f":
			name = certs.Name{Type: 0x7f, Label: []byte("host0.example")}
		case "typeff":
			name = certs.Name{Type: 0xff, Label: []byte{}}
		case "ipv4":
			name = certs.Name{Type: certs.TypeIPv4Address, Label: []byte{10, 0, 0, 1}}
		case "ipv6":
			name = certs.Name{Type: certs.TypeIPv6Address, Label: make([]byte, 16)}
		default:
			name = certs.RawStringName("nobody.invalid")
		}
		cl := w.clientFor(0, name)
		w.junkCl = append(w.junkCl, cl)
		tnet.Pump(w.sv, cl, cl.Local, nil)
		w.drainAccepts()
		return "ok"
	case len(f) == 4 && f[0] == "r":
		n := num(f[1])
		d := tnet.Stream(uint64(num(f[3])), n+8)[:n]
		if n > 0 {
			d[0] = byte(num(f[2]))
		}
		return w.sv.Deliver(d, tnet.Addr(91))
	case len(f) == 4 && f[0] == "cj":
		n := num(f[2])
		d := tnet.Stream(uint64(n*3+num(f[3])), n+8)[:n]
		if n > 0 {
			d[0] = byte(num(f[3]))
		}
		if f[1] == "est" {
			if len(w.est) == 0 {
				return "ok"
			}
			cl := w.est[0]
			if n >= 8 {
				sid := cl.C.VerifSession().SessionID
				copy(d[4:8], sid[:])
			}
			return cl.Deliver(d, tnet.ServerAddr)
		}
		cl := w.clientFor(0, certs.RawStringName(w.vh[0].name))
		w.junkCl = append(w.junkCl, cl)
		cl.Start()
		if f[1] == "s1" && !w.hidden {
			// bring it to the point where it waits for ServerAuth
			for _, x := range cl.Conn.Drain() {
				w.sv.Deliver(x.Data, cl.Local)
			}
			for _, x := range w.sv.Conn.Drain() {
				cl.Deliver(x.Data, tnet.ServerAddr)
			}
			cl.Conn.Drain()
		}
		if cl.Finished() {
			return "ok"
		}
		res := cl.Deliver(d, tnet.ServerAddr)
		if cl.Finished() && cl.HSErr != nil && strings.HasPrefix(cl.HSErr.Error(), "panic") {
			return "panic"
		}
		return res
	case len(f) == 3 && f[0] == "half":
		if w.hidden {
			return "ok"
		}
		cl := w.clientFor(0, certs.RawStringName(w.vh[0].name))
		w.junkCl = append(w.junkCl, cl)
		cl.Start()
		for _, x := range cl.Conn.Drain() {
			w.sv.Deliver(x.Data, cl.Local)
		}
		for _, x := range w.sv.Conn.Drain() {
			cl.Deliver(x.Data, tnet.ServerAddr)
		}
		for _, x := range cl.Conn.Drain() { // the ClientAck
			w.sv.Deliver(x.Data, cl.Local)
		}
		auth := w.sv.Conn.Drain() // ServerAuth: its header shows the new session's identifier
		if len(auth) != 1 || len(auth[0].Data) < 8 {
			return "no-half-open-session"
		}
		var key [16]byte
		if f[1] == "randkey" {
			copy(key[:], tnet.Stream(uint64(num(f[2])+77), 16))
		}
		mt := byte(16)
		if f[1] == "control-zerokey" {
			mt = 128
		}
		body := tnet.Stream(uint64(num(f[2])), num(f[2])+8)[:num(f[2])]
		hdr := []byte{mt, 0, 0, 0, auth[0].Data[4], auth[0].Data[5], auth[0].Data[6], auth[0].Data[7], 0, 0, 0, 0, 0, 0, 0, 0}
		var d []byte
		if f[1] == "junk" {
			d = append(hdr, tnet.Stream(uint64(num(f[2])+5), num(f[2])+40)[:num(f[2])+32]...)
		} else {
			aead, err := kravatte.NewSANSE(key[:])
			if err != nil {
				return "bad-op"
			}
			d = append(hdr, aead.Seal(nil, nil, body, hdr)...)
		}
		return w.sv.Deliver(d, tnet.Addr(92))
	case len(f) == 1 && f[0] == "probe":
		cl, h := w.honest(0)
		ok := 0
		if cl != nil {
			ok = 1
			cl.Close()
			h.Close()
		}
		good := 0
		buf := make([]byte, 256)
		for i, c := range w.est {
			h := w.handles[i]
			fine := true
			// the server speaks first: its datagrams reach the client only if they are addressed
			// to the client (junk must not have redirected the session)
			for _, word := range []string{"pong", "ping", "pong2"} {
				if word == "ping" {
					if c.C.WriteMsg([]byte(word)) != nil {
						fine = false
					}
					for _, d := range c.Conn.Drain() {
						w.sv.Deliver(d.Data, c.Local)
					}
					h.SetReadDeadline(time.Unix(1, 0))
					if n, err := h.ReadMsg(buf); err != nil || string(buf[:n]) != word {
						fine = false
					}
					continue
				}
				if h.WriteMsg([]byte(word)) != nil {
					fine = false
				}
				for _, d := range w.sv.Conn.Drain() {
					if tnet.AddrIndex(d.Dst) == tnet.AddrIndex(c.Local) {
						c.Deliver(d.Data, tnet.ServerAddr)
					}
				}
				c.C.SetReadDeadline(time.Unix(1, 0))
				if n, err := c.C.ReadMsg(buf); err != nil || string(buf[:n]) != word {
					fine = false
				}
			}
			if fine {
				good++
			}
		}
		return fmt.Sprintf("hs=%d est=%d/%d", ok, good, len(w.est))
	}
	return "bad-op"
}

func run(in *bufio.Scanner, out *bufio.Writer) {
	var w *world
	defer func() { w.close() }()
	for in.Scan() {
		f := strings.Fields(in.Text())
		res := "bad-op"
		switch {
		case len(f) == 4 && f[0] == "new":
			n, err := strconv.Atoi(f[2])
			if err != nil || n < 1 || n > 4 || (f[1] != "0" && f[1] != "1") {
				break
			}
			w.close()
			w = newWorld(f[1] == "1", n, f[3])
			res = "ok"
		case w != nil:
			res = Guard(func() string { return w.exec(f) })
		}
		out.WriteString(res)
		out.WriteByte('\n')
		out.Flush()
	}
}
