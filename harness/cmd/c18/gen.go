package main

import (
	"bytes"
	"encoding/binary"
	"net"
	"strconv"
	"strings"

	"github.com/sirupsen/logrus"

	"hop.computer/hop/codex"
	"hop.computer/hop/portforwarding"
	"hop.computer/hop/tubes"
	"hop.computer/hop/userauth"
	. "hopverif/hvlib"
)

func quietLog() *logrus.Entry { return logrus.NewEntry(logrus.StandardLogger()) }

// ------------------------------------------------------------------ generators
//
// Values are built around the case splits of the proofs: every length field at 0, 1, its maximum,
// maximum+1 and beyond; every enum at its known values, 0, one past the last and 255; times at 0,
// the int64 extremes and before 1970.  For every value the real encoder is run (under recover)
// and its output is fed back to the decoders as is, with trailing bytes, truncated at every
// prefix class, and with single bytes changed (length and type bytes first).

var len8 = []int{0, 1, 2, 7, 100, 252, 253, 254, 255, 256, 257, 300, 511, 512, 1000}
var labelLens = []int{0, 1, 2, 3, 50, 250, 251, 252, 253, 254, 255, 256, 300}
var len16 = []int{0, 1, 2, 255, 256, 1000, 65534, 65535, 65536, 65537, 70000}
var enums = []byte{0, 1, 2, 3, 4, 5, 6, 7, 127, 128, 254, 255}
var times = []int64{0, 1, 1700000000, 1 << 31, 1 << 32, 1<<63 - 1, -1, -62135596800, -1 << 63, 253402300800}

func lenFrom(r *Rng, special []int, max int) int {
	if r.Chance(2, 3) {
		return Pick(r, special)
	}
	return r.Intn(max + 1)
}

func rbytes(r *Rng, n int) []byte {
	if n == 0 {
		return []byte{}
	}
	if r.Chance(1, 2) {
		b := make([]byte, n)
		for i := range b {
			b[i] = 'a' + byte(i%26)
		}
		return b
	}
	return r.Bytes(n)
}

func genEnum(r *Rng) byte {
	if r.Chance(3, 4) {
		return Pick(r, enums)
	}
	return byte(r.Intn(256))
}

func genTime(r *Rng, valid bool) int64 {
	if valid {
		switch r.Intn(4) {
		case 0:
			return Pick(r, times[:6])
		case 1:
			return int64(r.U64() >> 1)
		}
		return int64(r.Intn(1 << 32))
	}
	if r.Chance(1, 2) {
		return Pick(r, times)
	}
	return int64(r.U64())
}

func genName(r *Rng, ok bool) name {
	n := lenFrom(r, labelLens, 260)
	if ok && n > 252 {
		n = r.Intn(40)
	}
	return name{genEnum(r), rbytes(r, n)}
}

// a chunk aiming at serialized length `target` (2 + sum(len+3)); the last block absorbs the rest
func genChunk(r *Rng, target int) []name {
	var ns []name
	left := target - 2
	for left >= 3 {
		l := r.Intn(40)
		if r.Chance(1, 4) {
			l = Pick(r, []int{0, 1, 100, 200, 252})
		}
		if l+3 > left || r.Chance(1, 6) {
			l = left - 3
		}
		if l > 252 {
			l = 252
		}
		ns = append(ns, name{genEnum(r), rbytes(r, l)})
		left -= l + 3
	}
	return ns
}

var chunkTargets = []int{2, 5, 6, 20, 100, 257, 258, 300, 509, 510, 511, 512, 513, 514, 515, 600, 767}

func genChunkAny(r *Rng, ok bool) []name {
	t := Pick(r, chunkTargets)
	if r.Chance(1, 3) {
		t = 2 + r.Intn(520)
	}
	if ok && t > 512 {
		t = 2 + r.Intn(200)
	}
	ns := genChunk(r, t)
	if !ok && r.Chance(1, 8) {
		ns = append(ns, genName(r, false))
	}
	return ns
}

func genCert(r *Rng, ok bool) cert {
	c := cert{ver: genEnum(r), typ: genEnum(r), issued: genTime(r, ok || r.Chance(2, 3)), expires: genTime(r, ok || r.Chance(2, 3)),
		chunk: genChunkAny(r, ok || r.Chance(2, 3))}
	if ok {
		c.chunk = genChunk(r, 2+r.Intn(80))
	}
	copy(c.pub[:], r.Bytes(32))
	copy(c.parent[:], r.Bytes(32))
	copy(c.sig[:], r.Bytes(64))
	if r.Chance(1, 8) {
		c.parent = [32]byte{}
		c.sig = [64]byte{}
	}
	return c
}

func genIntent(r *Rng) intent {
	okAll := r.Chance(1, 2)
	i := intent{gt: Pick(r, []byte{0, 1, 2, 2, 2, 3, 4, 5, 6, 255}), rsv: genEnum(r), port: uint16(Pick(r, []int{0, 1, 22, 77, 65535})),
		start: genTime(r, okAll || r.Chance(3, 4)), exp: genTime(r, okAll || r.Chance(3, 4)), sni: genName(r, okAll || r.Chance(3, 4)),
		cert: genCert(r, okAll || r.Chance(3, 4))}
	if okAll && (i.gt == 3 || i.gt == 4) && r.Chance(3, 4) {
		i.gt = 2
	}
	ul, cl := lenFrom(r, len8, 300), lenFrom(r, len8, 300)
	if okAll || r.Chance(1, 2) {
		ul, cl = r.Intn(256), r.Intn(256)
		if r.Chance(1, 4) {
			ul, cl = Pick(r, []int{0, 1, 254, 255}), Pick(r, []int{0, 1, 254, 255})
		}
	}
	i.user = rbytes(r, ul)
	if i.gt == 2 || r.Chance(1, 10) {
		i.cmd = rbytes(r, cl)
	} else {
		i.cmd = []byte{}
	}
	return i
}

func genAg(r *Rng) agmsg {
	switch r.Intn(8) {
	case 0, 1:
		return agmsg{kind: "req", intent: genIntent(r)}
	case 2, 3:
		return agmsg{kind: "comm", intent: genIntent(r)}
	case 4:
		return agmsg{kind: "conf"}
	case 5, 6:
		return agmsg{kind: "den", denial: rbytes(r, lenFrom(r, len8, 300))}
	}
	t := genEnum(r)
	if t >= 1 && t <= 4 {
		t += 4
	}
	return agmsg{kind: "unk", t: t}
}

func genFrame(r *Rng, big bool) frame {
	n := r.Intn(64)
	if r.Chance(1, 4) {
		n = Pick(r, []int{0, 1, 255, 256, 1400, 2000})
	}
	if big {
		n = Pick(r, []int{65522, 65523, 65525, 65535}) // encoded length around the 65535-byte datagram limit
	}
	f := frame{tube: genEnum(r), dl: uint16(n), tt: genEnum(r), data: rbytes(r, n),
		ack: uint32(Pick(r, []uint64{0, 1, 255, 256, 1 << 31, 1<<32 - 1, r.U64() & 0xffffffff})),
		fno: uint32(Pick(r, []uint64{0, 1, 65535, 65536, 1<<32 - 1, r.U64() & 0xffffffff}))}
	m := r.Intn(64)
	for i := 0; i < 6; i++ {
		f.fl[i] = m&(1<<i) != 0
	}
	if !big && r.Chance(1, 6) { // length field that disagrees with the data
		f.dl = uint16(Pick(r, []int{0, 1, n + 1, 65523, 65524, 65535}))
	}
	return f
}

func genExec(r *Rng) execmsg {
	m := execmsg{pty: r.Chance(1, 2), cmd: rbytes(r, lenFrom(r, len16[:6], 300)), term: rbytes(r, lenFrom(r, []int{0, 1, 5, 255, 256}, 40)),
		hasSize: r.Chance(1, 2)}
	if r.Chance(1, 60) {
		m.cmd = rbytes(r, Pick(r, len16))
	}
	if m.hasSize {
		m.r, m.c, m.x, m.y = uint16(Pick(r, []int{0, 24, 65535})), uint16(Pick(r, []int{0, 80, 256, 65535})), uint16(r.Intn(65536)), uint16(r.Intn(65536))
	}
	return m
}

func genPF(r *Rng) pfmsg {
	p := pfmsg{nt: Pick(r, []byte{1, 1, 2, 2, 3, 3, 3, 0, 4, 255}), ft: Pick(r, []byte{4, 5, 0, 1, 255})}
	switch p.nt {
	case 1, 2:
		ip := net.IP(r.Bytes(4))
		if r.Chance(1, 3) {
			ip = net.IP(r.Bytes(16))
		}
		if r.Chance(1, 6) {
			ip = net.IPv4(127, 0, 0, 1)
		}
		p.addr = []byte(net.JoinHostPort(ip.String(), strconv.Itoa(Pick(r, []int{0, 1, 22, 8080, 65535}))))
	case 3:
		n := r.Intn(60)
		if r.Chance(1, 8) {
			n = Pick(r, len16)
		}
		p.addr = rbytes(r, n)
		if r.Chance(1, 2) && n > 0 {
			p.addr = append([]byte("/tmp/"), p.addr...)[:n]
		}
	default:
		p.addr = []byte("x")
	}
	return p
}

// junk address strings for the decoder: colons and brackets in all the places SplitHostPort looks at
func junkAddr(r *Rng) []byte {
	parts := []string{"", ":", "::", "[", "]", "a", "1.2.3.4", "::1", "[::1]", "80", ":80", "]:", "[:"}
	var b []byte
	for k := r.Intn(5); k >= 0; k-- {
		b = append(b, Pick(r, parts)...)
	}
	return b
}

// ---- byte-string variants

// tame makes an exec request harmless for the *pinned* GetCmd, which allocates whatever length it
// computes (and computes it from a stale buffer when the stream ends inside a length field): the
// two lengths that code would use are simulated and, if one exceeds 1 MiB, the input is replaced
// by a short one.  (The junk suite goes to 4 MiB in a few explicit cases.)  A generated campaign
// must not take the machine down on such a tree.
func tame(what string, b []byte) []byte { return tameMax(what, b, 1<<20) }

func tameMax(what string, b []byte, max int) []byte {
	if what != "exec" {
		return b
	}
	l := make([]byte, 4)
	pos := 1
	for k := 0; k < 2; k++ {
		if pos < len(b) {
			pos += copy(l, b[pos:])
		}
		n := int(binary.BigEndian.Uint32(l))
		if n > max {
			return b[:1]
		}
		pos += n
	}
	return b
}

func emitDec(g0 *GenCtx, what string, enc []byte, heavy bool) {
	g := &decEmitter{g0, what}
	op := what + "-dec"
	g.Op("%s %s", op, HexOrDash(enc))
	g.Op("%s %s", op, HexOrDash(tame(what, append(append([]byte{}, enc...), g.R.Bytes(1+g.R.Intn(5))...))))
	if len(enc) == 0 {
		return
	}
	// truncations: each short prefix, then random longer ones
	cuts := []int{len(enc) - 1, len(enc) / 2}
	lim := 4
	if heavy {
		lim = 10
	}
	for c := 0; c < lim && c < len(enc); c++ {
		cuts = append(cuts, c)
	}
	if len(enc) < 70000 {
		for k := 0; k < 3; k++ {
			cuts = append(cuts, g.R.Intn(len(enc)))
		}
	}
	for _, c := range cuts {
		g.Op("%s %s", op, HexOrDash(tame(what, enc[:c])))
	}
	// mutations: early bytes carry the types and lengths
	nm := 3
	if heavy {
		nm = 6
	}
	for k := 0; k < nm; k++ {
		m := append([]byte{}, enc...)
		pos := g.R.Intn(len(m))
		if g.R.Chance(1, 2) {
			pos = g.R.Intn(min(len(m), 24))
		}
		switch g.R.Intn(4) {
		case 0:
			m[pos] = byte(g.R.Intn(256))
		case 1:
			m[pos]++
		case 2:
			m[pos]--
		case 3:
			m[pos] = Pick(g.R, []byte{0, 1, 2, 3, 4, 5, 0x7f, 0x80, 0xff})
		}
		if g.R.Chance(1, 3) {
			m = append(m, g.R.Bytes(g.R.Intn(300))...)
		}
		g.Op("%s %s", op, HexOrDash(tame(what, m)))
	}
}

// decEmitter drops frame-decoder inputs of 10 or 11 bytes: the muxer half of C11 repairs
// fromBytes so that such a buffer is a zero-padded initiate frame, which is outside the
// 12-byte-header format C18 is about
type decEmitter struct {
	*GenCtx
	what string
}

func (d *decEmitter) Op(format string, a ...any) {
	if d.what == "frame" && len(a) == 2 {
		if h, ok := a[1].(string); ok && (len(h) == 20 || len(h) == 22) {
			return
		}
	}
	d.GenCtx.Op(format, a...)
}

func realEnc(f func() string) []byte {
	s := Guard(f)
	if s == "err" || s == "panic" || s == "bad-op" {
		return nil
	}
	b, _ := Unhex(s)
	if b == nil {
		b = []byte{}
	}
	return b
}

func encOf(op string, val string) []byte {
	return realEnc(func() string { return runOp(append([]string{op}, splitFields(val)...)) })
}

func splitFields(s string) []string {
	var f []string
	for _, p := range bytes.Fields([]byte(s)) {
		f = append(f, string(p))
	}
	return f
}

// one value: the enc op, then decoder inputs derived from what the real encoder produced
func emitValue(g *GenCtx, what, val string, heavy, decode bool) {
	g.Op("%s-enc %s", what, val)
	if !decode {
		return
	}
	if enc := encOf(what+"-enc", val); enc != nil {
		emitDec(g, what, enc, heavy)
	}
}

func scale(g *GenCtx, quick, thorough int) int {
	if g.Thorough() {
		return thorough / g.Parts
	}
	return quick
}

func gen(g *GenCtx) {
	r := g.R
	for i := 0; i < g.Part; i++ { // decorrelate the parts
		r.U64()
		r = NewRng(r.U64())
	}
	g.R = r
	// ---- corpus: the inputs on which the pinned tree was wrong
	g.Op("str-enc %s", HexOrDash(bytes.Repeat([]byte{'a'}, 256)))
	g.Op("name-enc 1:%s", HexOrDash(bytes.Repeat([]byte{'a'}, 253)))
	g.Op("chunk-dec 000504010161")                                       // block runs past the announced chunk length
	g.Op("exec-dec 0100000005")                                          // GetCmd on a truncated request
	g.Op("ua-enc %s", HexOrDash(bytes.Repeat([]byte{'u'}, 65536)))       // user name beyond the 16-bit length
	g.Op("pf-enc 3 4 %s", HexOrDash(bytes.Repeat([]byte{'p'}, 65536+5))) // unix socket path beyond the 16-bit length
	for _, gt := range []byte{3, 4} {
		i := genIntent(NewRng(7))
		i.gt, i.cmd = gt, []byte{}
		g.Op("intent-enc %s", i)
		i.gt = 1
		if b := encOf("intent-enc", i.String()); b != nil {
			b[0] = gt
			g.Op("intent-dec %s", HexOrDash(b))
			g.Op("ag-dec 01%s", HexOrDash(b))
		}
	}

	// ---- strings: every length 0..300 once, then random
	for n := 0; n <= 300; n++ {
		if n%g.Parts == g.Part {
			emitValue(g, "str", HexOrDash(rbytes(r, n)), false, true)
		}
	}
	for i := scale(g, 150, 60000); i > 0; i-- {
		emitValue(g, "str", HexOrDash(rbytes(r, lenFrom(r, len8, 600))), false, true)
	}
	// ---- names: every label length 0..260
	for n := 0; n <= 260; n++ {
		if n%g.Parts == g.Part {
			emitValue(g, "name", name{genEnum(r), rbytes(r, n)}.String(), false, true)
		}
	}
	for i := scale(g, 150, 60000); i > 0; i-- {
		emitValue(g, "name", genName(r, false).String(), true, true)
	}
	// ---- chunks
	for _, t := range chunkTargets {
		emitValue(g, "chunk", chunkStr(genChunk(r, t)), false, true)
	}
	for i := scale(g, 150, 100000); i > 0; i-- {
		emitValue(g, "chunk", chunkStr(genChunkAny(r, false)), true, true)
	}
	// hand-made chunk encodings: announced length vs. the blocks that follow
	for i := scale(g, 300, 40000); i > 0; i-- {
		ns := genChunk(r, 2+r.Intn(60))
		var body []byte
		for _, n := range ns {
			bs := len(n.label) + 3
			if r.Chance(1, 8) {
				bs = Pick(r, []int{0, 2, 3, bs + 1, 255})
			}
			body = append(body, byte(bs), n.t, byte(len(n.label)))
			body = append(body, n.label...)
		}
		l := len(body) + 2
		switch r.Intn(6) {
		case 0:
			l += 1 + r.Intn(3)
		case 1:
			l -= 1 + r.Intn(3)
		case 2:
			l = Pick(r, []int{0, 1, 2, 3, 512, 513, 65535})
		}
		b := binary.BigEndian.AppendUint16(nil, uint16(l))
		g.Op("chunk-dec %s", HexOrDash(append(b, body...)))
	}
	// ---- certificates
	for i := scale(g, 150, 100000); i > 0; i-- {
		emitValue(g, "cert", genCert(r, r.Chance(2, 3)).String(), true, true)
	}
	// ---- bundles: several certificates in one PEM file (root stores, CA files): each is decoded on its own
	for i := scale(g, 40, 4000); i > 0; i-- {
		var hs []string
		for k := 2 + r.Intn(3); k > 0; k-- {
			enc := encOf("cert-enc", genCert(r, true).String())
			if enc == nil {
				continue
			}
			switch r.Intn(12) {
			case 0:
				enc = append(enc, byte(r.Intn(256))) // extra byte after a certificate
			case 1:
				enc = enc[:r.Intn(len(enc))]
			}
			hs = append(hs, HexOrDash(enc))
		}
		if len(hs) > 0 {
			g.Op("certs-dec %s", strings.Join(hs, ","))
		}
	}
	// ---- intents and grant messages
	for i := scale(g, 200, 100000); i > 0; i-- {
		emitValue(g, "intent", genIntent(r).String(), true, true)
	}
	for i := scale(g, 200, 100000); i > 0; i-- {
		emitValue(g, "ag", genAg(r).String(), true, true)
	}
	for t := 0; t < 256; t++ { // every message type byte, alone and followed by bytes
		if t%g.Parts == g.Part {
			g.Op("ag-dec %02x", t)
			g.Op("ag-dec %02x%s", t, HexOrDash(r.Bytes(1+r.Intn(40))))
		}
	}
	// ---- frames
	for m := 0; m < 256; m++ { // every meta byte
		if m%g.Parts == g.Part {
			g.Op("frame-dec 07%02x0001000000020000000341", m)
			g.Op("iframe-dec 07%02x000102000000000341", m)
		}
	}
	for i := scale(g, 400, 100000); i > 0; i-- {
		f := genFrame(r, false)
		consistent := int(f.dl) == len(f.data)
		emitValue(g, "frame", f.String(), false, consistent)
		emitValue(g, "iframe", f.initString(), false, consistent)
		if !consistent { // decoding a mis-framed encoding is still a legitimate decoder input when long enough
			if b := encOf("frame-enc", f.String()); b != nil && len(b) <= 65535 {
				g.Op("frame-dec %s", HexOrDash(b))
			}
		}
	}
	for i := scale(g, 4, 64); i > 0; i-- {
		f := genFrame(r, true)
		g.Op("frame-enc %s", f)
		g.Op("iframe-enc %s", f.initString())
		for _, v := range []struct {
			op  string
			enc []byte
		}{{"frame-dec", encOf("frame-enc", f.String())}, {"iframe-dec", encOf("iframe-enc", f.initString())}} {
			if v.enc != nil && len(v.enc) <= 65535 { // a datagram buffer is never longer
				g.Op("%s %s", v.op, HexOrDash(v.enc))
				g.Op("%s %s", v.op, HexOrDash(v.enc[:len(v.enc)-1]))
			}
		}
	}
	// ---- exec, userauth, port forwarding
	for i := scale(g, 300, 200000); i > 0; i-- {
		emitValue(g, "exec", genExec(r).String(), true, true)
	}
	for _, n := range len16 {
		g.Op("ua-enc %s", HexOrDash(rbytes(r, n)))
	}
	for i := scale(g, 300, 100000); i > 0; i-- {
		g.Op("ua-enc %s", HexOrDash(rbytes(r, lenFrom(r, len16[:6], 300))))
	}
	for i := scale(g, 60, 1500); i > 0; i-- { // through a real tube: slow
		u := rbytes(r, lenFrom(r, []int{0, 1, 2, 255, 256, 2000}, 40))
		enc := userauth.VerifInitMsgBytes(string(u))
		variants := [][]byte{enc, enc[:len(enc)-2], enc[:r.Intn(len(enc))], append(append([]byte{}, enc...), r.Bytes(3)...)}
		if r.Chance(1, 3) {
			variants = append(variants, r.Bytes(r.Intn(40)))
		}
		for _, v := range variants {
			g.Op("ua-dec %s", HexOrDash(v))
		}
	}
	// ---- target info: any user name, hosts and ports of the modelled form (and a few outside it)
	users := [][]byte{{}, []byte("alice"), []byte("alice@example.org"), []byte("a b"), []byte("a%b"), []byte("a%40b"), []byte("a:b"), []byte("a/b?c#d"),
		[]byte("a!b'(c)*d"), []byte("$&+,;=-_.~"), {0xc3, 0xa9}, {0, 1, 255, 0x7f, 0x80}, []byte("@@@"), []byte("%"), []byte("%%41")}
	hosts := [][]byte{[]byte("h"), []byte("target.example"), []byte("10.0.0.7"), []byte("-a-"), []byte("A.B"), []byte("::1"), []byte("a_b"), {}, []byte("h%41")}
	ports := [][]byte{{}, []byte("22"), []byte("0"), []byte("65535"), []byte("99999"), []byte("123456"), []byte("2x")}
	for _, u := range users {
		for _, h := range hosts {
			g.Op("ti-enc %s %s %s", HexOrDash(u), HexOrDash(h), HexOrDash(Pick(r, ports)))
		}
	}
	for i := scale(g, 400, 100000); i > 0; i-- {
		u := rbytes(r, lenFrom(r, []int{0, 1, 2, 30, 80, 84, 85, 86, 120, 255}, 12))
		if r.Chance(1, 2) { // mostly printable, with the characters that matter
			for k := range u {
				u[k] = Pick(r, []byte("abcXYZ019-_.~$&+,;=!'()*@:/?#% \x00\xff"))
			}
		}
		h := []byte(Pick(r, []string{"h", "target.example", "10.0.0.7", "x-1.y"}))
		p := []byte(Pick(r, []string{"", "22", "7777", "65535"}))
		g.Op("ti-enc %s %s %s", HexOrDash(u), HexOrDash(h), HexOrDash(p))
		// the encoding, its damage, and hand-made texts through the reader
		enc := encOf("ti-enc", HexOrDash(u)+" "+HexOrDash(h)+" "+HexOrDash(p))
		if len(enc) > 0 {
			g.Op("ti-dec %s", HexOrDash(enc))
			g.Op("ti-dec %s", HexOrDash(append(append([]byte{}, enc...), r.Bytes(2)...)))
			if len(enc) > 8 {
				d := append([]byte{}, enc...)
				d[7+r.Intn(len(d)-7)] = Pick(r, []byte("@%:aA0!/"))
				g.Op("ti-dec %s", HexOrDash(d))
				g.Op("ti-dec %s", HexOrDash(enc[:r.Intn(len(enc))]))
			}
		}
	}
	for _, t := range []string{"hop://h", "hop://@h", "hop://a!b@h", "hop://a%2fb@h", "hop://a%2Fb@h:022", "hop://a%zz@h", "hop://h:", "hop://h:99999",
		"hop://a@b@h", "hop://-h-", "hop://h..x", "hop://a:b@h", "hop://a@h/p", "hop://a@h?q", "hop://a@h#f", "hopp://a@h", "hop:/a@h", "a@h", "h", "",
		"hop://a%00b@h", "hop://%41%62@H", "hop://a@[::1]:22", "hop://a@h:1:2", "HOP://a@h"} {
		g.Op("ti-dec %s", HexOrDash(append([]byte{byte(len(t))}, t...)))
	}
	// ---- exec status, through real tubes (slow)
	g.Op("xst-enc conf")
	g.Op("xst-dec 01")
	g.Op("xst-dec 0109")
	g.Op("xst-dec -")
	for _, n := range []int{0, 1, 2, 255, 256, 4000, 65535, 65536, 65537, 70000} {
		m := rbytes(r, n)
		g.Op("xst-enc fail %s", HexOrDash(m))
		if n <= 65535 {
			enc := append([]byte{2, byte(n >> 8), byte(n), 0, 0}, m...)
			g.Op("xst-dec %s", HexOrDash(enc))
		}
	}
	for i := scale(g, 40, 1200); i > 0; i-- {
		m := rbytes(r, lenFrom(r, []int{0, 1, 2, 255, 256, 2000}, 40))
		enc := append([]byte{2, byte(len(m) >> 8), byte(len(m)), 0, 0}, m...)
		variants := [][]byte{enc, enc[:r.Intn(len(enc))], append(append([]byte{}, enc...), r.Bytes(3)...)}
		// the two bytes of the length field that the reader ignores, and other status bytes
		v := append([]byte{}, enc...)
		v[3], v[4] = byte(r.Intn(256)), byte(r.Intn(256))
		variants = append(variants, v)
		w := append([]byte{}, enc...)
		w[0] = byte(r.Intn(256))
		variants = append(variants, w)
		if r.Chance(1, 3) {
			variants = append(variants, r.Bytes(r.Intn(40)))
		}
		for _, x := range variants {
			g.Op("xst-dec %s", HexOrDash(x))
		}
	}
	for i := scale(g, 300, 200000); i > 0; i-- {
		p := genPF(r)
		emitValue(g, "pf", p.String(), true, true)
		if r.Chance(1, 2) { // address syntax
			a := junkAddr(r)
			b := append([]byte{Pick(r, []byte{1, 2, 3}), p.ft}, binary.BigEndian.AppendUint16(nil, uint16(len(a)))...)
			g.Op("pf-dec %s", HexOrDash(append(b, a...)))
		}
	}
	// ---- random bytes into every decoder
	for i := scale(g, 200, 50000); i > 0; i-- {
		b := r.Bytes(r.Intn(48))
		for _, w := range []string{"str", "name", "chunk", "cert", "intent", "ag", "frame", "iframe", "exec", "pf"} {
			if w == "frame" && (len(b) == 10 || len(b) == 11) {
				continue
			}
			g.Op("%s-dec %s", w, HexOrDash(tame(w, append([]byte{}, b...))))
		}
	}
	// malformed lines answer bad-op on both sides
	for _, l := range []string{"str-enc zz", "name-enc 1", "name-enc 256:00", "cert-enc 1 2 3", "frame-enc 1 10100 0 0 0 -",
		"frame-enc 1 101000 65536 0 0 -", "ag-enc unk 3", "exec-enc 2 - - -", "nonsense 00", "str-dec 0", "pf-enc 1 4"} {
		g.Op("%s", l)
	}
	_ = tubes.VerifFrame{}
	_ = codex.VerifExecInitBytes
	_ = portforwarding.PfTCP
}

// ------------------------------------------------------------------ junk campaign (decoder half of C11)
//
// Readers that take their input from a tube, fed prefixes of valid messages whose length fields
// announce more than follows (up to 4 MiB), valid messages, mutated messages and random bytes.
// Observable: ok | err | panic, and whether the call allocated more than 256 KiB.

func be32(n uint32) []byte { return binary.BigEndian.AppendUint32(nil, n) }

func genJunk(g *GenCtx) {
	r := g.R
	for i := 0; i < g.Part; i++ {
		r = NewRng(r.U64())
	}
	g.R = r
	// (page-faulting fresh memory is slow on small VMs: the largest announced length is 4 MiB,
	// which is 16 times the 256 KiB threshold)
	big := []uint32{0, 1, 255, 256, 65535, 65536, 1 << 17, 1 << 18, 1 << 19, 1 << 20, 1 << 22}
	// exec: announced command / terminal lengths far beyond what follows
	for _, l := range big {
		for _, fl := range []byte{0, 1, 2, 3, 0xff} {
			if l >= 1<<20 && fl != 3 {
				continue
			}
			g.Op("junk exec %s", HexOrDash(tameMax("exec", append([]byte{fl}, be32(l)...), 1<<22)))
			g.Op("junk exec %s", HexOrDash(tameMax("exec", append(append([]byte{fl}, be32(l)...), r.Bytes(r.Intn(20))...), 1<<22)))
			g.Op("junk exec %s", HexOrDash(tameMax("exec", append(append([]byte{fl, 0, 0, 0, 2, 'l', 's'}, be32(l)...), r.Bytes(r.Intn(4))...), 1<<22)))
		}
	}
	// exec status: every value of the 4-byte length field's bytes at its boundaries, nothing or little following
	if !g.Thorough() || g.Part == 0 {
		for _, hd := range [][]byte{{2, 0, 0, 0, 0}, {2, 0, 1, 0, 0}, {2, 0xff, 0xff, 0, 0}, {2, 0, 0, 0xff, 0xff}, {2, 0xff, 0xff, 0xff, 0xff},
			{2, 0, 4, 0, 0}, {2, 0x10, 0, 0, 0}, {0, 0xff, 0xff, 0xff, 0xff}, {1}, {2}, {2, 0xff}, {3, 0x80, 0, 0, 1}} {
			g.Op("junk xst %s", HexOrDash(hd))
			g.Op("junk xst %s", HexOrDash(append(append([]byte{}, hd...), r.Bytes(r.Intn(30))...)))
		}
	}
	for _, l := range []int{0, 1, 255, 256, 4095, 65535} {
		for _, w := range []string{"pf", "ua"} {
			h := []byte{3, 4, byte(l >> 8), byte(l)}
			if w == "ua" {
				if g.Thorough() && g.Part != 0 {
					continue
				}
				h = h[2:]
			}
			g.Op("junk %s %s", w, HexOrDash(h))
			g.Op("junk %s %s", w, HexOrDash(append(h, r.Bytes(r.Intn(30))...)))
		}
	}
	n := scale(g, 2500, 150000)
	for i := 0; i < n; i++ {
		// valid messages and their damage
		var what string
		var enc []byte
		switch r.Intn(6) {
		case 0:
			what, enc = "str", encOf("str-enc", HexOrDash(rbytes(r, r.Intn(256))))
		case 1:
			what, enc = "intent", encOf("intent-enc", genIntent(r).String())
		case 2:
			what, enc = "ag", encOf("ag-enc", genAg(r).String())
		case 3:
			what, enc = "cert", encOf("cert-enc", genCert(r, true).String())
		case 4:
			what, enc = "exec", encOf("exec-enc", genExec(r).String())
		case 5:
			what, enc = "pf", encOf("pf-enc", genPF(r).String())
		}
		if enc == nil {
			enc = r.Bytes(r.Intn(64))
		}
		if len(enc) > 4096 {
			enc = enc[:4096]
		}
		g.Op("junk %s %s", what, HexOrDash(enc))
		if len(enc) > 0 && what != "ua" {
			g.Op("junk %s %s", what, HexOrDash(tame(what, enc[:r.Intn(len(enc))])))
			m := append([]byte{}, enc...)
			for k := 1 + r.Intn(3); k > 0; k-- {
				pos := r.Intn(min(len(m), 32))
				if r.Chance(1, 3) {
					pos = r.Intn(len(m))
				}
				m[pos] = Pick(r, []byte{0, 1, 2, 3, 4, 0x7f, 0x80, 0xff, byte(r.Intn(256))})
			}
			g.Op("junk %s %s", what, HexOrDash(tame(what, m)))
		}
		g.Op("junk %s %s", what, HexOrDash(tame(what, r.Bytes(r.Intn(64)))))
	}
	// user-auth requests go through a real tube: fewer of them
	for i := scale(g, 40, 600); i > 0; i-- {
		b := r.Bytes(r.Intn(24))
		if r.Chance(1, 2) && len(b) >= 2 {
			b[0] = 0
		}
		g.Op("junk ua %s", HexOrDash(b))
	}
	g.Op("junk nothing 00")
	g.Op("junk str")
}
