package main

import (
	"bufio"
	"bytes"
	"encoding/pem"
	"errors"
	"fmt"
	"hop.computer/hop/core"
	"io"
	"net"
	"regexp"
	"runtime"
	"strconv"
	"strings"
	"sync"
	"syscall"
	"time"

	"hop.computer/hop/authgrants"
	"hop.computer/hop/certs"
	"hop.computer/hop/codex"
	"hop.computer/hop/common"
	"hop.computer/hop/portforwarding"
	"hop.computer/hop/tubes"
	"hop.computer/hop/userauth"
	. "hopverif/hvlib"
)

// C18 — wire encodings round-trip; C18junk — decoder half of C11 (no panic, bounded allocation).
// Every line is its own case.  The value syntax is documented in Driver/C18.lean.

func main() {
	// a reader that allocates what a length field announces must not take the machine's memory with it: with
	// an address-space limit the process dies instead (`<crash>` on that input) and the runner goes on with
	// the next line
	lim := syscall.Rlimit{Cur: 5 << 30, Max: 5 << 30}
	syscall.Setrlimit(syscall.RLIMIT_AS, &lim)
	Main(map[string]*Suite{"C18": {Gen: gen, Run: run}, "C18junk": {Gen: genJunk, Run: run}})
}

// ------------------------------------------------------------------ values and their syntax

type name struct {
	t     byte
	label []byte
}

type cert struct {
	ver, typ        byte
	issued, expires int64
	pub, parent     [32]byte
	chunk           []name
	sig             [64]byte
}

type intent struct {
	gt, rsv    byte
	port       uint16
	start, exp int64
	sni        name
	user       []byte
	cert       cert
	cmd        []byte
}

type agmsg struct {
	kind   string // req comm conf den unk
	intent intent
	denial []byte
	t      byte
}

type flags [6]bool // REQ RESP REL ACK FIN RTR

type frame struct {
	tube     byte
	fl       flags
	dl       uint16
	ack, fno uint32
	tt       byte // initiate frames only
	data     []byte
}

type execmsg struct {
	pty        bool
	cmd, term  []byte
	hasSize    bool
	r, c, x, y uint16
}

type pfmsg struct {
	nt, ft byte
	addr   []byte
}

func (n name) String() string { return fmt.Sprintf("%d:%s", n.t, HexOrDash(n.label)) }

func chunkStr(ns []name) string {
	if len(ns) == 0 {
		return "."
	}
	var p []string
	for _, n := range ns {
		p = append(p, n.String())
	}
	return strings.Join(p, ",")
}

func (c cert) String() string {
	return fmt.Sprintf("%d %d %d %d %s %s %s %s", c.ver, c.typ, c.issued, c.expires, HexOrDash(c.pub[:]),
		HexOrDash(c.parent[:]), chunkStr(c.chunk), HexOrDash(c.sig[:]))
}

func (i intent) String() string {
	return fmt.Sprintf("%d %d %d %d %d %s %s %s %s", i.gt, i.rsv, i.port, i.start, i.exp, i.sni, HexOrDash(i.user),
		i.cert, HexOrDash(i.cmd))
}

func (m agmsg) String() string {
	switch m.kind {
	case "req", "comm":
		return m.kind + " " + m.intent.String()
	case "conf":
		return "conf"
	case "den":
		return "den " + HexOrDash(m.denial)
	}
	return fmt.Sprintf("unk %d", m.t)
}

func (f flags) String() string {
	s := ""
	for _, b := range f {
		if b {
			s += "1"
		} else {
			s += "0"
		}
	}
	return s
}

func (f frame) String() string {
	return fmt.Sprintf("%d %s %d %d %d %s", f.tube, f.fl, f.dl, f.ack, f.fno, HexOrDash(f.data))
}

func (f frame) initString() string {
	return fmt.Sprintf("%d %s %d %d %d %s", f.tube, f.fl, f.dl, f.tt, f.fno, HexOrDash(f.data))
}

func (m execmsg) String() string {
	sz := "-"
	if m.hasSize {
		sz = fmt.Sprintf("%d,%d,%d,%d", m.r, m.c, m.x, m.y)
	}
	p := 0
	if m.pty {
		p = 1
	}
	return fmt.Sprintf("%d %s %s %s", p, HexOrDash(m.cmd), HexOrDash(m.term), sz)
}

func (p pfmsg) String() string { return fmt.Sprintf("%d %d %s", p.nt, p.ft, HexOrDash(p.addr)) }

// ---- parsing (runner side); ok=false -> bad-op

func pByte(s string) (byte, bool) {
	v, err := strconv.ParseUint(s, 10, 8)
	return byte(v), err == nil && !strings.HasPrefix(s, "+")
}

func pU(s string, bits int) (uint64, bool) {
	v, err := strconv.ParseUint(s, 10, bits)
	return v, err == nil && !strings.HasPrefix(s, "+")
}

func pI64(s string) (int64, bool) {
	v, err := strconv.ParseInt(s, 10, 64)
	return v, err == nil && !strings.HasPrefix(s, "+")
}

func pName(s string) (name, bool) {
	p := strings.Split(s, ":")
	if len(p) != 2 {
		return name{}, false
	}
	t, ok1 := pByte(p[0])
	l, ok2 := Unhex(p[1])
	if l == nil {
		l = []byte{}
	}
	return name{t, l}, ok1 && ok2
}

func pChunk(s string) ([]name, bool) {
	if s == "." {
		return nil, true
	}
	var out []name
	for _, p := range strings.Split(s, ",") {
		n, ok := pName(p)
		if !ok {
			return nil, false
		}
		out = append(out, n)
	}
	return out, true
}

func pFixed(s string, dst []byte) bool {
	b, ok := Unhex(s)
	if !ok || len(b) != len(dst) {
		return false
	}
	copy(dst, b)
	return true
}

func pCert(f []string) (c cert, ok bool) {
	if len(f) != 8 {
		return c, false
	}
	var o [8]bool
	c.ver, o[0] = pByte(f[0])
	c.typ, o[1] = pByte(f[1])
	c.issued, o[2] = pI64(f[2])
	c.expires, o[3] = pI64(f[3])
	o[4] = pFixed(f[4], c.pub[:])
	o[5] = pFixed(f[5], c.parent[:])
	c.chunk, o[6] = pChunk(f[6])
	o[7] = pFixed(f[7], c.sig[:])
	for _, x := range o {
		if !x {
			return c, false
		}
	}
	return c, true
}

func pIntent(f []string) (i intent, ok bool) {
	if len(f) != 16 {
		return i, false
	}
	var o [9]bool
	i.gt, o[0] = pByte(f[0])
	i.rsv, o[1] = pByte(f[1])
	var p uint64
	p, o[2] = pU(f[2], 16)
	i.port = uint16(p)
	i.start, o[3] = pI64(f[3])
	i.exp, o[4] = pI64(f[4])
	i.sni, o[5] = pName(f[5])
	i.user, o[6] = Unhex(f[6])
	i.cert, o[7] = pCert(f[7:15])
	i.cmd, o[8] = Unhex(f[15])
	for _, x := range o {
		if !x {
			return i, false
		}
	}
	return i, true
}

func pAg(f []string) (m agmsg, ok bool) {
	if len(f) == 0 {
		return m, false
	}
	m.kind = f[0]
	switch {
	case (f[0] == "req" || f[0] == "comm") && len(f) == 17:
		m.intent, ok = pIntent(f[1:])
		return m, ok
	case f[0] == "conf" && len(f) == 1:
		return m, true
	case f[0] == "den" && len(f) == 2:
		m.denial, ok = Unhex(f[1])
		return m, ok
	case f[0] == "unk" && len(f) == 2:
		m.t, ok = pByte(f[1])
		return m, ok && !(m.t >= 1 && m.t <= 4)
	}
	return m, false
}

func pFlags(s string) (f flags, ok bool) {
	if len(s) != 6 {
		return f, false
	}
	for i := 0; i < 6; i++ {
		switch s[i] {
		case '1':
			f[i] = true
		case '0':
		default:
			return f, false
		}
	}
	return f, true
}

func pFrame(f []string, init bool) (fr frame, ok bool) {
	if len(f) != 6 {
		return fr, false
	}
	var o [6]bool
	fr.tube, o[0] = pByte(f[0])
	fr.fl, o[1] = pFlags(f[1])
	var v uint64
	v, o[2] = pU(f[2], 16)
	fr.dl = uint16(v)
	if init {
		fr.tt, o[3] = pByte(f[3])
	} else {
		v, o[3] = pU(f[3], 32)
		fr.ack = uint32(v)
	}
	v, o[4] = pU(f[4], 32)
	fr.fno = uint32(v)
	fr.data, o[5] = Unhex(f[5])
	for _, x := range o {
		if !x {
			return fr, false
		}
	}
	return fr, true
}

func pExec(f []string) (m execmsg, ok bool) {
	if len(f) != 4 || (f[0] != "0" && f[0] != "1") {
		return m, false
	}
	m.pty = f[0] == "1"
	var o1, o2 bool
	m.cmd, o1 = Unhex(f[1])
	m.term, o2 = Unhex(f[2])
	if !o1 || !o2 {
		return m, false
	}
	if f[3] == "-" {
		return m, true
	}
	p := strings.Split(f[3], ",")
	if len(p) != 4 {
		return m, false
	}
	var v [4]uint16
	for i := range p {
		x, ok := pU(p[i], 16)
		if !ok {
			return m, false
		}
		v[i] = uint16(x)
	}
	m.hasSize, m.r, m.c, m.x, m.y = true, v[0], v[1], v[2], v[3]
	return m, true
}

func pPF(f []string) (p pfmsg, ok bool) {
	if len(f) != 3 {
		return p, false
	}
	var o [3]bool
	p.nt, o[0] = pByte(f[0])
	p.ft, o[1] = pByte(f[1])
	p.addr, o[2] = Unhex(f[2])
	return p, o[0] && o[1] && o[2]
}

// ------------------------------------------------------------------ to and from the real types

func toName(n name) certs.Name { return certs.Name{Label: n.label, Type: certs.IDType(n.t)} }

func fromName(n certs.Name) name { return name{byte(n.Type), n.Label} }

func toBlocks(ns []name) certs.IDChunk {
	var c certs.IDChunk
	for _, n := range ns {
		c.Blocks = append(c.Blocks, toName(n))
	}
	return c
}

func fromBlocks(c certs.IDChunk) []name {
	var ns []name
	for _, b := range c.Blocks {
		ns = append(ns, fromName(b))
	}
	return ns
}

func toCert(c cert) *certs.Certificate {
	return &certs.Certificate{Version: c.ver, Type: certs.CertificateType(c.typ), IssuedAt: time.Unix(c.issued, 0),
		ExpiresAt: time.Unix(c.expires, 0), IDChunk: toBlocks(c.chunk), PublicKey: c.pub, Parent: c.parent, Signature: c.sig}
}

// value fields only; Fingerprint/raw are derived from the bytes read
func fromCert(c *certs.Certificate) cert {
	return cert{ver: c.Version, typ: byte(c.Type), issued: c.IssuedAt.Unix(), expires: c.ExpiresAt.Unix(),
		pub: c.PublicKey, parent: c.Parent, chunk: fromBlocks(c.IDChunk), sig: c.Signature}
}

func toIntent(i intent) *authgrants.Intent {
	r := &authgrants.Intent{GrantType: authgrants.GrantType(i.gt), Reserved: i.rsv, TargetPort: i.port,
		StartTime: time.Unix(i.start, 0), ExpTime: time.Unix(i.exp, 0), TargetSNI: toName(i.sni),
		TargetUsername: string(i.user), DelegateCert: *toCert(i.cert)}
	r.AssociatedData.CommandGrantData.Cmd = string(i.cmd)
	return r
}

func fromIntent(i *authgrants.Intent) intent {
	return intent{gt: byte(i.GrantType), rsv: i.Reserved, port: i.TargetPort, start: i.StartTime.Unix(), exp: i.ExpTime.Unix(),
		sni: fromName(i.TargetSNI), user: []byte(i.TargetUsername), cert: fromCert(&i.DelegateCert),
		cmd: []byte(i.AssociatedData.CommandGrantData.Cmd)}
}

func toAg(m agmsg) *authgrants.AgMessage {
	r := &authgrants.AgMessage{}
	switch m.kind {
	case "req":
		r.MsgType = authgrants.IntentRequest
		r.Data.Intent = *toIntent(m.intent)
	case "comm":
		r.MsgType = authgrants.IntentCommunication
		r.Data.Intent = *toIntent(m.intent)
	case "conf":
		r.MsgType = authgrants.IntentConfirmation
	case "den":
		r.MsgType = authgrants.IntentDenied
		r.Data.Denial = string(m.denial)
	default:
		// msgType is unexported: obtain an arbitrary type byte by reading it
		r.ReadFrom(bytes.NewReader([]byte{m.t}))
	}
	return r
}

func fromAg(m *authgrants.AgMessage) agmsg {
	switch m.MsgType {
	case authgrants.IntentRequest:
		return agmsg{kind: "req", intent: fromIntent(&m.Data.Intent)}
	case authgrants.IntentCommunication:
		return agmsg{kind: "comm", intent: fromIntent(&m.Data.Intent)}
	case authgrants.IntentConfirmation:
		return agmsg{kind: "conf"}
	case authgrants.IntentDenied:
		return agmsg{kind: "den", denial: []byte(m.Data.Denial)}
	}
	return agmsg{kind: "unk", t: byte(m.MsgType)}
}

func toVFrame(f frame) tubes.VerifFrame {
	return tubes.VerifFrame{AckNo: f.ack, FrameNo: f.fno, DataLength: f.dl, TubeID: f.tube, Data: f.data,
		REQ: f.fl[0], RESP: f.fl[1], REL: f.fl[2], ACK: f.fl[3], FIN: f.fl[4], RTR: f.fl[5]}
}

func toVInit(f frame) tubes.VerifInitiateFrame {
	return tubes.VerifInitiateFrame{FrameNo: f.fno, DataLength: f.dl, TubeID: f.tube, TubeType: tubes.TubeType(f.tt), Data: f.data,
		REQ: f.fl[0], RESP: f.fl[1], REL: f.fl[2], ACK: f.fl[3], FIN: f.fl[4], RTR: f.fl[5]}
}

// pfAddr builds the net.Addr whose wire form is (nt, addr): Unix addresses carry the string itself,
// TCP/UDP addresses are parsed from the canonical "ip:port" text the generator made
func pfAddr(p pfmsg) (net.Addr, bool) {
	switch p.nt {
	case portforwarding.PfUNIX:
		return &net.UnixAddr{Name: string(p.addr), Net: "unix"}, true
	case portforwarding.PfTCP, portforwarding.PfUDP:
		host, port, err := net.SplitHostPort(string(p.addr))
		if err != nil {
			return nil, false
		}
		pn, err := strconv.Atoi(port)
		ip := net.ParseIP(host)
		if err != nil || ip == nil || net.JoinHostPort(ip.String(), strconv.Itoa(pn)) != string(p.addr) {
			return nil, false
		}
		if p.nt == portforwarding.PfTCP {
			return &net.TCPAddr{IP: ip, Port: pn}, true
		}
		return &net.UDPAddr{IP: ip, Port: pn}, true
	}
	// any other net.Addr implementation: toBytes has no encoding for it
	return &net.IPAddr{IP: net.IPv4(1, 2, 3, 4)}, true
}

// ------------------------------------------------------------------ calling the real code

func encOut(b []byte, err error) string {
	if err != nil {
		return "err"
	}
	return HexOrDash(b)
}

func writerTo(w io.WriterTo) string {
	return Guard(func() string {
		var buf bytes.Buffer
		_, err := w.WriteTo(&buf)
		return encOut(buf.Bytes(), err)
	})
}

type strWriter []byte

func (s strWriter) WriteTo(w io.Writer) (int64, error) { return common.WriteString(string(s), w) }

func rest(r *bytes.Reader) string {
	b, _ := io.ReadAll(r)
	return HexOrDash(b)
}

// conn lets GetCmd (which wants a net.Conn) read from a byte string
type conn struct{ *bytes.Reader }

func (conn) Write(b []byte) (int, error)      { return len(b), nil }
func (conn) Close() error                     { return nil }
func (conn) LocalAddr() net.Addr              { return &net.UnixAddr{} }
func (conn) RemoteAddr() net.Addr             { return &net.UnixAddr{} }
func (conn) SetDeadline(time.Time) error      { return nil }
func (conn) SetReadDeadline(time.Time) error  { return nil }
func (conn) SetWriteDeadline(time.Time) error { return nil }

// decode runs the real reader `what` on b; res is "err" or the decoded value followed by the
// unread remainder
func decode(what string, b []byte) string {
	r := bytes.NewReader(b)
	switch what {
	case "str":
		s, _, err := common.ReadString(r)
		if err != nil {
			return "err"
		}
		return HexOrDash([]byte(s)) + " " + rest(r)
	case "name":
		var n certs.Name
		if _, err := n.ReadFrom(r); err != nil {
			return "err"
		}
		return fromName(n).String() + " " + rest(r)
	case "chunk":
		var c certs.IDChunk
		if _, err := c.ReadFrom(r); err != nil {
			return "err"
		}
		return chunkStr(fromBlocks(c)) + " " + rest(r)
	case "cert":
		var c certs.Certificate
		if _, err := c.ReadFrom(r); err != nil {
			return "err"
		}
		return fromCert(&c).String() + " " + rest(r)
	case "intent":
		var i authgrants.Intent
		if _, err := i.ReadFrom(r); err != nil {
			return "err"
		}
		return fromIntent(&i).String() + " " + rest(r)
	case "ag":
		var m authgrants.AgMessage
		if _, err := m.ReadFrom(r); err != nil {
			return "err"
		}
		return fromAg(&m).String() + " " + rest(r)
	case "exec":
		cmd, term, usePty, size, err := codex.GetCmd(conn{r})
		if err != nil {
			return "err"
		}
		m := execmsg{pty: usePty, cmd: []byte(cmd), term: []byte(term)}
		if size != nil {
			m.hasSize, m.r, m.c, m.x, m.y = true, size.Rows, size.Cols, size.X, size.Y
		}
		return m.String() + " " + rest(r)
	case "pf":
		addr, ft, err := portforwarding.VerifReadPacket(r)
		if err != nil {
			return "err"
		}
		// the model works on the address *string*: it is b[4:4+len] of an accepted packet
		p := pfmsg{ft: ft}
		switch addr.(type) {
		case *net.TCPAddr:
			p.nt = portforwarding.PfTCP
		case *net.UDPAddr:
			p.nt = portforwarding.PfUDP
		case *net.UnixAddr:
			p.nt = portforwarding.PfUNIX
			if string(b[4:len(b)-r.Len()]) != addr.(*net.UnixAddr).Name {
				return "ok-but-name-differs"
			}
		}
		p.addr = b[4 : len(b)-r.Len()]
		return p.String() + " " + rest(r)
	case "ti":
		// the text, to decide whether it is one the model covers (the real reader runs in any case)
		text, _, terr := common.ReadString(bytes.NewReader(b))
		u, err := authgrants.ReadTargetInfo(r)
		if terr != nil {
			if err == nil {
				return "accepted-a-short-string"
			}
			return "err"
		}
		if !tiTextRe.MatchString(text) {
			return "unmodelled"
		}
		if err != nil {
			return "err-on-a-modelled-text"
		}
		return HexOrDash([]byte(u.User)) + " " + HexOrDash([]byte(u.Host)) + " " + HexOrDash([]byte(u.Port)) + " " + rest(r)
	case "ua":
		return uaDecode(b)
	case "xst":
		return xstDecode(b)
	}
	return "bad-op"
}

// frames are decoded from a datagram buffer, not a stream.  A panic on a short buffer (pinned
// code) and an error both count as "rejected": panic-freedom of the frame path is the muxer
// half of C11.
func decodeFrame(init bool, b []byte) (res string) {
	defer func() {
		if recover() != nil {
			res = "err"
		}
	}()
	if init {
		v := tubes.VerifInitiateFrameFromBytes(b)
		f := frame{tube: v.TubeID, fl: flags{v.REQ, v.RESP, v.REL, v.ACK, v.FIN, v.RTR}, dl: v.DataLength, tt: byte(v.TubeType),
			fno: v.FrameNo, data: v.Data}
		return f.initString() + " " + HexOrDash(b[10+int(v.DataLength):])
	}
	v, err := tubes.VerifFrameFromBytes(b)
	if err != nil {
		return "err"
	}
	f := frame{tube: v.TubeID, fl: flags{v.REQ, v.RESP, v.REL, v.ACK, v.FIN, v.RTR}, dl: v.DataLength, ack: v.AckNo,
		fno: v.FrameNo, data: v.Data}
	return f.String() + " " + HexOrDash(b[12+int(v.DataLength):])
}

// ---- userauth.GetInitMsg wants a *tubes.Reliable: a real muxer pair over an in-memory MsgConn

type memConn struct {
	in     chan []byte
	out    chan []byte
	closed chan struct{}
	once   *sync.Once
}

func (c *memConn) ReadMsg(b []byte) (int, error) {
	select {
	case m := <-c.in:
		return copy(b, m), nil
	case <-c.closed:
		return 0, net.ErrClosed
	}
}

func (c *memConn) WriteMsg(b []byte) error {
	m := append([]byte(nil), b...)
	select {
	case c.out <- m:
		return nil
	case <-c.closed:
		return net.ErrClosed
	}
}
func (c *memConn) Read(b []byte) (int, error)       { return c.ReadMsg(b) }
func (c *memConn) Write(b []byte) (int, error)      { return len(b), c.WriteMsg(b) }
func (c *memConn) Close() error                     { c.once.Do(func() { close(c.closed) }); return nil }
func (c *memConn) LocalAddr() net.Addr              { return &net.UnixAddr{Name: "mem"} }
func (c *memConn) RemoteAddr() net.Addr             { return &net.UnixAddr{Name: "mem"} }
func (c *memConn) SetDeadline(time.Time) error      { return nil }
func (c *memConn) SetReadDeadline(time.Time) error  { return nil }
func (c *memConn) SetWriteDeadline(time.Time) error { return nil }

var (
	muxOnce    sync.Once
	muxC, muxS *tubes.Muxer
)

func muxers() {
	muxOnce.Do(func() {
		a, b := make(chan []byte, 1024), make(chan []byte, 1024)
		cl, once := make(chan struct{}), &sync.Once{}
		muxC = tubes.Client(&memConn{in: a, out: b, closed: cl, once: once}, &tubes.Config{Log: quietLog()})
		muxS = tubes.Server(&memConn{in: b, out: a, closed: cl, once: once}, &tubes.Config{Log: quietLog()})
	})
}

// uaDecode writes b into a fresh user-auth tube, closes the writing side, and lets the real
// GetInitMsg read the other end; what GetInitMsg left unread is the remainder
// uaAlloc is what the process allocated while the last GetInitMsg call ran (creating the tube is
// not the reader's doing and is kept out of the measurement)
var uaAlloc uint64

// tubePair opens a fresh reliable tube between the two muxers (ct: the client muxer's end)
func tubePair(ty tubes.TubeType) (ct, st *tubes.Reliable, problem string) {
	muxers()
	ct, err := muxC.CreateReliableTube(ty)
	for k := 0; err != nil && k < 400; k++ { // tube ids are reusable 4 RTT after a tube has closed
		time.Sleep(50 * time.Millisecond)
		ct, err = muxC.CreateReliableTube(ty)
	}
	if err != nil {
		return nil, nil, "harness-error-create"
	}
	t, err := muxS.Accept()
	if err != nil {
		return nil, nil, "harness-error-accept"
	}
	st, ok := t.(*tubes.Reliable)
	if !ok {
		return nil, nil, "harness-error-type"
	}
	return ct, st, ""
}

// xstDecode writes b into a fresh exec tube, closes the writing side and lets the real
// codex.getStatus (verif hook) read the other end: `conf` or `fail:<text>`, then what it left unread
func xstDecode(b []byte) string {
	uaAlloc = 0
	ct, st, problem := tubePair(common.ExecTube)
	if problem != "" {
		return problem
	}
	go func() {
		if len(b) > 0 {
			ct.Write(b)
		}
		ct.Close()
	}()
	res := make(chan string, 1)
	go func() {
		res <- Guard(func() string {
			var m0, m1 runtime.MemStats
			runtime.ReadMemStats(&m0)
			err := codex.VerifGetStatus(st)
			runtime.ReadMemStats(&m1)
			uaAlloc = m1.TotalAlloc - m0.TotalAlloc
			r, _ := io.ReadAll(st)
			if err == nil {
				return "conf " + HexOrDash(r)
			}
			return "fail:" + HexOrDash([]byte(err.Error())) + " " + HexOrDash(r)
		})
	}()
	var out string
	select {
	case out = <-res:
	case <-time.After(20 * time.Second):
		out = "harness-timeout"
		hugeAllocs++
	}
	st.Close()
	return out
}

// xstEncode lets the real codex.SendSuccess / SendFailure write into a tube and returns the bytes
// that arrive at the other end
func xstEncode(conf bool, msg []byte) string {
	ct, st, problem := tubePair(common.ExecTube)
	if problem != "" {
		return problem
	}
	go func() {
		if conf {
			codex.SendSuccess(ct)
		} else {
			codex.SendFailure(ct, errors.New(string(msg)))
		}
		ct.Close()
	}()
	res := make(chan string, 1)
	go func() {
		r, _ := io.ReadAll(st)
		res <- HexOrDash(r)
	}()
	var out string
	select {
	case out = <-res:
	case <-time.After(60 * time.Second):
		out = "harness-timeout"
	}
	st.Close()
	return out
}

func uaDecode(b []byte) string {
	uaAlloc = 0
	ct, st, problem := tubePair(common.UserAuthTube)
	if problem != "" {
		return problem
	}
	go func() {
		if len(b) > 0 {
			ct.Write(b)
		}
		ct.Close()
	}()
	res := make(chan string, 1)
	go func() {
		res <- Guard(func() string {
			var m0, m1 runtime.MemStats
			runtime.ReadMemStats(&m0)
			u := userauth.GetInitMsg(st)
			runtime.ReadMemStats(&m1)
			uaAlloc = m1.TotalAlloc - m0.TotalAlloc
			r, _ := io.ReadAll(st)
			return HexOrDash([]byte(u)) + " " + HexOrDash(r)
		})
	}()
	var out string
	select {
	case out = <-res:
	case <-time.After(60 * time.Second):
		out = "harness-timeout"
	}
	st.Close()
	return out
}

// ------------------------------------------------------------------ runner

// hugeAllocs counts the calls that allocated more than 64 MiB: after four of them the remaining junk of the
// run is not decoded any more (a decoder that allocates what a length field announces takes seconds per
// case; the four cases are the failing inputs)
var hugeAllocs int

func allocClass(what string, f func() string) string {
	if hugeAllocs >= 4 {
		return "harness-alloc-storm"
	}
	var a, b runtime.MemStats
	runtime.ReadMemStats(&a)
	r := Guard(f)
	runtime.ReadMemStats(&b)
	d := b.TotalAlloc - a.TotalAlloc
	if what == "ua" || what == "xst" {
		d = uaAlloc
	}
	if d > 64<<20 {
		hugeAllocs++
	}
	cls := "small"
	// 256 KiB: twice the 128 KiB the model's counter is held to (Go copies a buffer once more
	// when it converts it to a string)
	if d > 262144 {
		cls = "big"
	}
	if r != "panic" && r != "err" && r != "bad-op" && !strings.HasPrefix(r, "harness-") {
		r = "ok"
	}
	return r + " " + cls
}

// the texts and values Model/TargetInfo.lean covers (`unmodelled` otherwise, on both sides)
var (
	tiHostRe = regexp.MustCompile(`^[A-Za-z0-9.\-]+$`)
	tiPortRe = regexp.MustCompile(`^[0-9]{0,5}$`)
	tiTextRe = regexp.MustCompile(`^hop://(?:(?:[A-Za-z0-9\-_.~$&+,;=!'()*]|%[0-9A-Fa-f]{2})*@)?[A-Za-z0-9.\-]+(?::[0-9]{1,5})?$`)
)

func run(in *bufio.Scanner, out *bufio.Writer) {
	for in.Scan() {
		f := strings.Fields(in.Text())
		res := "bad-op"
		if len(f) >= 2 {
			res = runOp(f)
		}
		out.WriteString(res)
		out.WriteByte('\n')
	}
}

func runOp(f []string) string {
	op, a := f[0], f[1:]
	if op == "junk" {
		if len(a) != 2 {
			return "bad-op"
		}
		b, ok := Unhex(a[1])
		switch a[0] {
		case "str", "intent", "ag", "cert", "exec", "ua", "pf", "xst":
		default:
			ok = false
		}
		if !ok {
			return "bad-op"
		}
		return allocClass(a[0], func() string { return decode(a[0], b) })
	}
	if op == "certs-dec" {
		if len(a) != 1 {
			return "bad-op"
		}
		var file bytes.Buffer
		for _, h := range strings.Split(a[0], ",") {
			b, ok := Unhex(h)
			if !ok {
				return "bad-op"
			}
			pem.Encode(&file, &pem.Block{Type: certs.PEMTypeHopCertificate, Bytes: b})
		}
		return Guard(func() string {
			cs, err := certs.ReadManyCertificatesPEM(&file)
			if err != nil {
				return "err"
			}
			var out []string
			for i := range cs {
				out = append(out, fromCert(&cs[i]).String())
			}
			return strings.Join(out, ";")
		})
	}
	if strings.HasSuffix(op, "-dec") {
		if len(a) != 1 {
			return "bad-op"
		}
		b, ok := Unhex(a[0])
		if !ok {
			return "bad-op"
		}
		what := strings.TrimSuffix(op, "-dec")
		switch what {
		case "frame":
			return decodeFrame(false, b)
		case "iframe":
			return decodeFrame(true, b)
		}
		return Guard(func() string { return decode(what, b) })
	}
	switch op {
	case "ti-enc":
		if len(a) == 3 {
			u, ok1 := Unhex(a[0])
			h, ok2 := Unhex(a[1])
			p, ok3 := Unhex(a[2])
			if ok1 && ok2 && ok3 {
				if !tiHostRe.Match(h) || !tiPortRe.Match(p) {
					return "unmodelled"
				}
				return Guard(func() string {
					var buf bytes.Buffer
					if err := authgrants.WriteTargetInfo(core.URL{User: string(u), Host: string(h), Port: string(p)}, &buf); err != nil {
						return "err"
					}
					return HexOrDash(buf.Bytes())
				})
			}
		}
	case "xst-enc":
		if len(a) == 1 && a[0] == "conf" {
			return xstEncode(true, nil)
		}
		if len(a) == 2 && a[0] == "fail" {
			if m, ok := Unhex(a[1]); ok {
				return xstEncode(false, m)
			}
		}
	case "str-enc":
		if s, ok := Unhex(a[0]); ok && len(a) == 1 {
			return writerTo(strWriter(s))
		}
	case "name-enc":
		if n, ok := pName(a[0]); ok && len(a) == 1 {
			x := toName(n)
			return writerTo(&x)
		}
	case "chunk-enc":
		if c, ok := pChunk(a[0]); ok && len(a) == 1 {
			x := toBlocks(c)
			return writerTo(&x)
		}
	case "cert-enc":
		if c, ok := pCert(a); ok {
			return Guard(func() string { return encOut(toCert(c).Marshal()) })
		}
	case "intent-enc":
		if i, ok := pIntent(a); ok {
			return writerTo(toIntent(i))
		}
	case "ag-enc":
		if m, ok := pAg(a); ok {
			return writerTo(toAg(m))
		}
	case "frame-enc":
		if fr, ok := pFrame(a, false); ok {
			return Guard(func() string { return HexOrDash(tubes.VerifFrameToBytes(toVFrame(fr))) })
		}
	case "iframe-enc":
		if fr, ok := pFrame(a, true); ok {
			return Guard(func() string { return HexOrDash(tubes.VerifInitiateFrameToBytes(toVInit(fr))) })
		}
	case "exec-enc":
		if m, ok := pExec(a); ok {
			return Guard(func() string {
				return HexOrDash(codex.VerifExecInitBytes(m.pty, string(m.cmd), string(m.term), m.hasSize, m.r, m.c, m.x, m.y))
			})
		}
	case "ua-enc":
		if u, ok := Unhex(a[0]); ok && len(a) == 1 {
			return Guard(func() string {
				b := userauth.VerifInitMsgBytes(string(u))
				if b == nil {
					return "err"
				}
				return HexOrDash(b)
			})
		}
	case "pf-enc":
		if p, ok := pPF(a); ok {
			addr, ok := pfAddr(p)
			if !ok {
				return "bad-op"
			}
			return Guard(func() string {
				b := portforwarding.VerifToBytes(addr, int(p.ft))
				if b == nil {
					return "err"
				}
				return HexOrDash(b)
			})
		}
	}
	return "bad-op"
}
