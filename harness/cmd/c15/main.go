package main

import (
	. "hopverif/hvlib"
	"hopverif/sess"
)

// C15 — peer address changes: the session suite with the roaming profile (the Lean driver is the
// C03 world).
func main() { Main(map[string]*Suite{"C03": sess.New("roam")}) }
