package main

import (
	"bufio"
	"bytes"
	"errors"
	"fmt"
	"io"
	"net"
	"strconv"
	"strings"
	"time"

	"hop.computer/hop/authgrants"
	"hop.computer/hop/certs"
	"hop.computer/hop/core"
	"hop.computer/hop/keys"
	. "hopverif/hvlib"
)

// C06 — principal and target decision logic of the authorization-grant protocol.
//
// The real authgrants.StartPrincipalInstance / StartTargetInstance are run on scripted,
// fully synchronous net.Conn implementations (no goroutines, no timing): the delegate connection
// delivers the serialized requests of the case one message at a time and records what is written
// on it; the approval callback records its arguments and answers as scripted; the set-up function
// behaves as scripted (fails early / calls the verify callback like a transport handshake and
// completes or fails afterwards / skips the callback); the target connection records the bytes
// written on it (decoded with the package's own reader) and answers as scripted.

func main() {
	Main(map[string]*Suite{
		"C06":  {Gen: genPrincipal, Run: func(in *bufio.Scanner, out *bufio.Writer) { runCases(in, out, runPrincipalCase) }},
		"C06t": {Gen: genTarget, Run: func(in *bufio.Scanner, out *bufio.Writer) { runCases(in, out, runTargetCase) }},
	})
}

// ---------------------------------------------------------------- certificates as tokens

func delegateCert(k int) certs.Certificate {
	var pk keys.DHPublicKey
	for i := range pk {
		pk[i] = byte(k*7 + i*13 + 1)
	}
	pk[0], pk[1] = byte(k>>8), byte(k)
	c := certs.Certificate{
		Version:   1,
		Type:      certs.Leaf,
		IssuedAt:  time.Unix(int64(1000+k), 0),
		ExpiresAt: time.Unix(int64(0x0FEDCBA098765432)-int64(k), 0),
		IDChunk:   certs.IDChunk{Blocks: []certs.Name{certs.DNSName(strings.Repeat("d", k%23) + strconv.Itoa(k) + ".example")}},
		PublicKey: pk,
	}
	if k%5 == 0 {
		c.IDChunk.Blocks = append(c.IDChunk.Blocks, certs.RawStringName("user"+strconv.Itoa(k)))
	}
	for i := range c.Parent {
		c.Parent[i] = byte(i + k)
	}
	for i := range c.Signature {
		c.Signature[i] = byte(i*3 + k)
	}
	return c
}

func certBytes(c *certs.Certificate) string {
	b, err := c.Marshal()
	if err != nil {
		return "!"
	}
	return string(b)
}

// ---------------------------------------------------------------- intents on the line protocol

type intentLine struct {
	intent authgrants.Intent
	tok    int
}

func natLt(s string, bound uint64) (uint64, bool) {
	if len(s) == 0 || len(s) > 20 {
		return 0, false
	}
	for _, c := range s {
		if c < '0' || c > '9' {
			return 0, false
		}
	}
	v, err := strconv.ParseUint(s, 10, 64)
	if err != nil || v >= bound {
		return 0, false
	}
	return v, true
}

func bytesLe(s string, max int) ([]byte, bool) {
	b, ok := Unhex(s)
	if !ok || len(b) > max {
		return nil, false
	}
	if s != "-" && len(b) == 0 {
		return nil, false
	}
	return b, true
}

func parseIntent(f []string) (il intentLine, ok bool) {
	if len(f) != 10 {
		return
	}
	g, ok1 := natLt(f[0], 256)
	r, ok2 := natLt(f[1], 256)
	p, ok3 := natLt(f[2], 65536)
	st, ok4 := natLt(f[3], 1<<63)
	ex, ok5 := natLt(f[4], 1<<63)
	sty, ok6 := natLt(f[5], 256)
	sni, ok7 := bytesLe(f[6], 200)
	u, ok8 := bytesLe(f[7], 255)
	c, ok9 := natLt(f[8], 65536)
	cmd, ok10 := bytesLe(f[9], 255)
	if !(ok1 && ok2 && ok3 && ok4 && ok5 && ok6 && ok7 && ok8 && ok9 && ok10) {
		return
	}
	if g == 3 || g == 4 || (g != 2 && len(cmd) != 0) {
		return
	}
	if sni == nil {
		sni = []byte{}
	}
	il.tok = int(c)
	il.intent = authgrants.Intent{
		GrantType:      authgrants.GrantType(g),
		Reserved:       byte(r),
		TargetPort:     uint16(p),
		StartTime:      time.Unix(int64(st), 0),
		ExpTime:        time.Unix(int64(ex), 0),
		TargetSNI:      certs.Name{Type: certs.IDType(sty), Label: sni},
		TargetUsername: string(u),
		DelegateCert:   delegateCert(int(c)),
	}
	il.intent.AssociatedData.CommandGrantData.Cmd = string(cmd)
	return il, true
}

type tokens map[string]int // serialized delegate certificate -> token

func (t tokens) show(i *authgrants.Intent) string {
	tok := "?"
	if k, ok := t[certBytes(&i.DelegateCert)]; ok {
		tok = strconv.Itoa(k)
	}
	return fmt.Sprintf("%d,%d,%d,%d,%d,%d,%s,%s,%s,%s", byte(i.GrantType), i.Reserved, i.TargetPort,
		i.StartTime.Unix(), i.ExpTime.Unix(), byte(i.TargetSNI.Type), HexOrDash(i.TargetSNI.Label),
		HexOrDash([]byte(i.TargetUsername)), tok, HexOrDash([]byte(i.AssociatedData.CommandGrantData.Cmd)))
}

// ---------------------------------------------------------------- scripted connections

type addr struct{}

func (addr) Network() string { return "script" }
func (addr) String() string  { return "script" }

type connBase struct{}

func (connBase) Close() error                       { return nil }
func (connBase) LocalAddr() net.Addr                { return addr{} }
func (connBase) RemoteAddr() net.Addr               { return addr{} }
func (connBase) SetDeadline(t time.Time) error      { return nil }
func (connBase) SetReadDeadline(t time.Time) error  { return nil }
func (connBase) SetWriteDeadline(t time.Time) error { return nil }

// inConn delivers messages one at a time (a Read never crosses a message boundary) and reports
// when the reader starts on message k; a message flagged `last` ends the stream after its bytes.
type inConn struct {
	connBase
	msgs    [][]byte
	last    []bool
	cur     int
	off     int
	dead    bool
	onStart func(k int) // k == len(msgs): the reader asked for more after the last message
	onWrite func(b []byte) (int, error)
}

func (c *inConn) Read(p []byte) (int, error) {
	if len(p) == 0 {
		return 0, nil
	}
	for !c.dead && c.cur < len(c.msgs) && c.off == len(c.msgs[c.cur]) {
		// message exhausted
		if c.last[c.cur] {
			c.dead = true
		}
		c.cur++
		c.off = 0
	}
	if c.dead || c.cur >= len(c.msgs) {
		if !c.dead {
			c.dead = true
			c.onStart(len(c.msgs))
		}
		return 0, io.EOF
	}
	if c.off == 0 {
		c.onStart(c.cur)
	}
	n := copy(p, c.msgs[c.cur][c.off:])
	c.off += n
	return n, nil
}

func (c *inConn) Write(b []byte) (int, error) { return c.onWrite(b) }

// answerParser turns the bytes written on a connection into C / D events
type answerParser struct {
	buf  []byte
	emit func(string)
}

func (a *answerParser) write(b []byte) {
	a.buf = append(a.buf, b...)
	for len(a.buf) > 0 {
		switch a.buf[0] {
		case byte(authgrants.IntentConfirmation):
			a.emit("C")
			a.buf = a.buf[1:]
		case byte(authgrants.IntentDenied):
			if len(a.buf) < 2 || len(a.buf) < 2+int(a.buf[1]) {
				return // incomplete
			}
			a.emit("D")
			a.buf = a.buf[2+int(a.buf[1]):]
		default:
			a.emit("?" + fmt.Sprintf("%x", a.buf))
			a.buf = nil
		}
	}
}

func (a *answerParser) flush() {
	if len(a.buf) > 0 {
		a.emit("?partial" + fmt.Sprintf("%x", a.buf))
		a.buf = nil
	}
}

// ---------------------------------------------------------------- case runner plumbing

type line struct {
	kind string // "new", "req", "comm", "junk", "bad"
	// req / comm
	il      intentLine
	setup   string
	vcert   int
	thenOk  bool
	approve bool
	answer  string
	checkOk bool
	addOk   bool
	// junk
	jkind string
	jn    int
}

func runCases(in *bufio.Scanner, out *bufio.Writer, runCase func(ls []line) []string) {
	var cur []line
	flush := func() {
		if len(cur) == 0 {
			return
		}
		var res []string
		r := Guard(func() string {
			res = runCase(cur)
			return ""
		})
		for k := range cur {
			s := "panic"
			if r == "" && k < len(res) {
				s = res[k]
			}
			if cur[k].kind == "bad" {
				s = "bad-op"
			}
			out.WriteString(s)
			out.WriteByte('\n')
		}
		cur = nil
	}
	for in.Scan() {
		f := strings.Fields(in.Text())
		l := parseLine(f)
		if l.kind == "new" {
			flush()
		}
		cur = append(cur, l)
	}
	flush()
}

func parseLine(f []string) line {
	bad := line{kind: "bad"}
	if len(f) == 0 {
		return bad
	}
	switch f[0] {
	case "new":
		if len(f) == 1 {
			return line{kind: "new"}
		}
	case "req":
		if len(f) != 14 {
			return bad
		}
		il, ok := parseIntent(f[1:11])
		if !ok {
			return bad
		}
		l := line{kind: "req", il: il}
		switch {
		case f[11] == "early" || f[11] == "skip":
			l.setup = f[11]
		default:
			p := strings.Split(f[11], ":")
			if len(p) != 3 || p[0] != "v" || (p[2] != "0" && p[2] != "1") {
				return bad
			}
			c, ok := natLt(p[1], 65536)
			if !ok {
				return bad
			}
			l.setup, l.vcert, l.thenOk = "v", int(c), p[2] == "1"
		}
		switch f[12] {
		case "A":
			l.approve = true
		case "D":
		default:
			return bad
		}
		switch f[13] {
		case "confirm", "deny", "close", "garbage", "wfail":
			l.answer = f[13]
		default:
			return bad
		}
		return l
	case "comm":
		if len(f) != 13 {
			return bad
		}
		il, ok := parseIntent(f[1:11])
		if !ok || (f[11] != "0" && f[11] != "1") || (f[12] != "0" && f[12] != "1") {
			return bad
		}
		return line{kind: "comm", il: il, checkOk: f[11] == "1", addOk: f[12] == "1"}
	case "junk":
		if len(f) != 3 {
			return bad
		}
		n, ok := natLt(f[2], 100000)
		if !ok {
			return bad
		}
		switch f[1] {
		case "conf", "denied", "comm", "req", "trunc", "badtype", "pf3", "pf4":
			return line{kind: "junk", jkind: f[1], jn: int(n)}
		}
	}
	return bad
}

var junkIntent = func() authgrants.Intent {
	il, _ := parseIntent(strings.Fields("2 0 22 5 6 1 6a 6b 9 6c73"))
	return il.intent
}()

// junkBytes builds something that is not the expected message (`want` = the expected type)
func junkBytes(l line, want byte) (b []byte, endsStream bool) {
	var buf bytes.Buffer
	switch l.jkind {
	case "conf":
		return []byte{byte(authgrants.IntentConfirmation)}, false
	case "denied":
		authgrants.WriteIntentDenied(&buf, "no")
		return buf.Bytes(), false
	case "comm", "req":
		// a well-formed message of the *other* intent-carrying type
		if want == byte(authgrants.IntentRequest) {
			authgrants.WriteIntentCommunication(&buf, junkIntent)
		} else {
			authgrants.WriteIntentRequest(&buf, junkIntent)
		}
		return buf.Bytes(), false
	case "pf3", "pf4":
		// a complete message of the expected type whose intent has a port-forwarding grant type: its
		// grant data has no encoding (WriteTo reports that after everything else is written, ReadFrom
		// refuses it), so the reader must give up on the connection
		pf := junkIntent
		pf.GrantType = authgrants.LocalPF
		if l.jkind == "pf4" {
			pf.GrantType = authgrants.RemotePF
		}
		pf.AssociatedData = authgrants.GrantData{}
		if want == byte(authgrants.IntentRequest) {
			authgrants.WriteIntentRequest(&buf, pf)
		} else {
			authgrants.WriteIntentCommunication(&buf, pf)
		}
		return buf.Bytes(), false
	case "trunc":
		if want == byte(authgrants.IntentRequest) {
			authgrants.WriteIntentRequest(&buf, junkIntent)
		} else {
			authgrants.WriteIntentCommunication(&buf, junkIntent)
		}
		full := buf.Bytes()
		return full[:1+l.jn%(len(full)-1)], true
	default: // badtype
		t := byte(0)
		if l.jn%252 != 0 {
			t = byte(4 + l.jn%252)
		}
		return []byte{t}, false
	}
}

// ---------------------------------------------------------------- principal side

func targetCert(c int) *certs.Certificate {
	k := delegateCert(40000 + c%20000)
	return &k
}

func runPrincipalCase(ls []line) []string {
	res := make([]string, len(ls))
	var msgs [][]byte
	var last []bool
	var idx []int // message -> line
	toks := tokens{}
	tcerts := map[*certs.Certificate]int{}
	tcertOf := map[int]*certs.Certificate{}
	for k, l := range ls {
		switch l.kind {
		case "new":
			res[k] = "ok"
		case "req":
			var buf bytes.Buffer
			i := l.il.intent
			if err := authgrants.WriteIntentRequest(&buf, i); err != nil {
				res[k] = "encode-err"
				continue
			}
			toks[certBytes(&i.DelegateCert)] = l.il.tok
			if l.setup == "v" {
				if _, ok := tcertOf[l.vcert]; !ok {
					p := targetCert(l.vcert)
					tcertOf[l.vcert] = p
					tcerts[p] = l.vcert
				}
			}
			msgs, last, idx = append(msgs, buf.Bytes()), append(last, false), append(idx, k)
			res[k] = "unserved"
		case "junk":
			b, end := junkBytes(l, byte(authgrants.IntentRequest))
			msgs, last, idx = append(msgs, b), append(last, end), append(idx, k)
			res[k] = "unserved"
		case "comm":
			res[k] = "bad-op"
			ls[k].kind = "bad"
		}
	}

	cur := -1 // line being served
	var evs []string
	var pendingTarget []byte
	var ansBuf []byte
	flushTarget := func() {
		for len(pendingTarget) > 0 {
			r := bytes.NewReader(pendingTarget)
			i, err := authgrants.ReadIntentCommunication(r)
			if err != nil {
				evs = append(evs, fmt.Sprintf("tt:?%x", pendingTarget))
				pendingTarget = nil
				return
			}
			evs = append(evs, "tt:"+toks.show(&i))
			pendingTarget = pendingTarget[len(pendingTarget)-r.Len():]
		}
	}
	dparse := &answerParser{emit: func(s string) { evs = append(evs, "td:"+s) }}
	endSegment := func() {
		flushTarget()
		dparse.flush()
		if cur >= 0 {
			s := strings.Join(evs, ";")
			if ls[cur].kind == "junk" {
				if s == "" {
					s = "quit"
				} else {
					s = "quit;" + s
				}
			}
			res[cur] = s
		} else if len(evs) > 0 {
			res[0] = "ok;" + strings.Join(evs, ";")
		}
		evs = nil
	}

	dc := &inConn{msgs: msgs, last: last}
	dc.onStart = func(m int) {
		endSegment()
		if m < len(idx) {
			cur = idx[m]
			ansBuf = nil
			switch ls[cur].answer {
			case "confirm":
				ansBuf = []byte{byte(authgrants.IntentConfirmation)}
			case "deny":
				var b bytes.Buffer
				authgrants.WriteIntentDenied(&b, "target says no")
				ansBuf = b.Bytes()
			case "garbage":
				ansBuf = []byte{9, 1, 2, 3}
			}
		} else {
			cur = -1
		}
	}
	dc.onWrite = func(b []byte) (int, error) {
		flushTarget()
		dparse.write(b)
		return len(b), nil
	}

	tconn := struct {
		connBase
		io.Reader
		io.Writer
	}{
		Reader: readerFunc(func(p []byte) (int, error) {
			flushTarget()
			if len(ansBuf) == 0 {
				return 0, io.EOF
			}
			n := copy(p, ansBuf)
			ansBuf = ansBuf[n:]
			return n, nil
		}),
		Writer: writerFunc(func(b []byte) (int, error) {
			if cur >= 0 && ls[cur].answer == "wfail" {
				return 0, errors.New("target connection is dead")
			}
			pendingTarget = append(pendingTarget, b...)
			return len(b), nil
		}),
	}

	ci := func(i authgrants.Intent, c *certs.Certificate) error {
		flushTarget()
		ct := "nil"
		if c != nil {
			if t, ok := tcerts[c]; ok {
				ct = strconv.Itoa(t)
			} else {
				ct = "?"
			}
		}
		d := cur >= 0 && ls[cur].approve
		if d {
			evs = append(evs, "cb:"+toks.show(&i)+":"+ct+":A")
			return nil
		}
		evs = append(evs, "cb:"+toks.show(&i)+":"+ct+":D")
		return errors.New("principal user says no")
	}
	su := func(u core.URL, vc authgrants.AdditionalVerifyCallback) (net.Conn, error) {
		if cur < 0 {
			evs = append(evs, "su:?")
			return nil, errors.New("no request")
		}
		l := ls[cur]
		if u != l.il.intent.TargetURL() {
			evs = append(evs, "su:wrong-url")
		}
		switch l.setup {
		case "early":
			return nil, errors.New("cannot reach target")
		case "skip":
			return tconn, nil
		default:
			// like a transport handshake: the verify callback decides about the peer certificate
			if err := vc(tcertOf[l.vcert]); err != nil {
				return nil, fmt.Errorf("handshake failed: %w", err)
			}
			if !l.thenOk {
				return nil, errors.New("user authorization on target failed")
			}
			return tconn, nil
		}
	}
	authgrants.StartPrincipalInstance(dc, ci, su)
	endSegment()
	return res
}

type readerFunc func(p []byte) (int, error)

func (f readerFunc) Read(p []byte) (int, error) { return f(p) }

type writerFunc func(p []byte) (int, error)

func (f writerFunc) Write(p []byte) (int, error) { return f(p) }

// ---------------------------------------------------------------- target side

func runTargetCase(ls []line) []string {
	res := make([]string, len(ls))
	var msgs [][]byte
	var last []bool
	var idx []int
	toks := tokens{}
	for k, l := range ls {
		switch l.kind {
		case "new":
			res[k] = "ok"
		case "comm":
			var buf bytes.Buffer
			i := l.il.intent
			if err := authgrants.WriteIntentCommunication(&buf, i); err != nil {
				res[k] = "encode-err"
				continue
			}
			toks[certBytes(&i.DelegateCert)] = l.il.tok
			msgs, last, idx = append(msgs, buf.Bytes()), append(last, false), append(idx, k)
			res[k] = "unserved"
		case "junk":
			b, end := junkBytes(l, byte(authgrants.IntentCommunication))
			msgs, last, idx = append(msgs, b), append(last, end), append(idx, k)
			res[k] = "unserved"
		case "req":
			res[k] = "bad-op"
			ls[k].kind = "bad"
		}
	}
	cur := -1
	var evs []string
	parse := &answerParser{emit: func(s string) { evs = append(evs, "re:"+s) }}
	endSegment := func() {
		parse.flush()
		if cur >= 0 {
			s := strings.Join(evs, ";")
			if ls[cur].kind == "junk" {
				if s == "" {
					s = "quit"
				} else {
					s = "quit;" + s
				}
			}
			res[cur] = s
		} else if len(evs) > 0 {
			res[0] = "ok;" + strings.Join(evs, ";")
		}
		evs = nil
	}
	pc := &inConn{msgs: msgs, last: last}
	pc.onStart = func(m int) {
		endSegment()
		if m < len(idx) {
			cur = idx[m]
		} else {
			cur = -1
		}
	}
	pc.onWrite = func(b []byte) (int, error) {
		parse.write(b)
		return len(b), nil
	}
	pcert := targetCert(1)
	ci := func(i authgrants.Intent, c *certs.Certificate) error {
		e := "ck:" + toks.show(&i)
		if c != pcert {
			e = "ck!wrong-principal-cert:" + toks.show(&i)
		}
		evs = append(evs, e)
		if cur >= 0 && ls[cur].checkOk {
			return nil
		}
		return errors.New("policy says no")
	}
	add := func(i *authgrants.Intent) error {
		if i == nil {
			evs = append(evs, "add:nil")
			return errors.New("nil")
		}
		evs = append(evs, "add:"+toks.show(i))
		if cur >= 0 && ls[cur].addOk {
			return nil
		}
		return errors.New("cannot store")
	}
	authgrants.StartTargetInstance(pc, pcert, ci, add)
	endSegment()
	return res
}

// ---------------------------------------------------------------- generators

func hexs(b []byte) string { return HexOrDash(b) }

type tgt struct {
	user, sni []byte
	port      int
}

func intentWords(g *GenCtx, t tgt, gtype int, cmd []byte, cert int, rnd bool) string {
	res, st, ex, sty := 0, uint64(1700000000), uint64(1700003600), 1
	if rnd {
		res = Pick(g.R, []int{0, 0, 0, 1, 255})
		st = Pick(g.R, []uint64{0, 1, 1700000000, 1<<31 - 1, 1 << 32, 1<<63 - 1, g.R.U64() >> 1})
		ex = Pick(g.R, []uint64{0, 1, 1700003600, 1 << 31, 1<<63 - 1, g.R.U64() >> 1})
		sty = Pick(g.R, []int{0, 1, 1, 2, 3, 77, 255})
	}
	if gtype != 2 {
		cmd = nil
	}
	return fmt.Sprintf("%d %d %d %d %d %d %s %s %d %s", gtype, res, t.port, st, ex, sty, hexs(t.sni), hexs(t.user), cert, hexs(cmd))
}

func randStr(r *Rng, lens []int) []byte {
	n := Pick(r, lens)
	b := make([]byte, n)
	for i := range b {
		if r.Chance(1, 8) {
			b[i] = byte(r.U64())
		} else {
			b[i] = "abcdefghijklmnopqrstuvwxyz -/._0123456789"[r.Intn(41)]
		}
	}
	return b
}

func genPrincipal(g *GenCtx) {
	g.R = NewRng(g.R.U64() + uint64(g.Part)*0x9E3779B97F4A7C15) // parts draw different random cases

	T := []tgt{{[]byte("user"), []byte("target"), 7777}, {[]byte("user"), []byte("other"), 7777}}
	// the two shapes on which the pinned tree failed come first
	g.Op("new")
	g.Op("req %s v:1:1 A confirm", intentWords(g, T[0], 2, []byte("ls"), 1, false))
	g.Op("req %s early D confirm", intentWords(g, T[0], 2, []byte("rm -rf /"), 1, false))
	g.Op("new")
	g.Op("req %s v:1:1 D confirm", intentWords(g, T[0], 1, nil, 2, false))
	g.Op("req %s v:1:1 A confirm", intentWords(g, T[0], 1, nil, 2, false))

	// exhaustive: scripts of length <= 3 (thorough: 4) over {same, other target} x {approve, deny} x
	// {confirm, deny, close} with a verifying set-up function
	maxLen := 3
	if g.Thorough() {
		maxLen = 4
	}
	answers := []string{"confirm", "deny", "close"}
	count := 0
	for n := 1; n <= maxLen; n++ {
		total := 1
		for i := 0; i < n; i++ {
			total *= 12
		}
		for code := 0; code < total; code++ {
			count++
			if count%g.Parts != g.Part {
				continue
			}
			g.Op("new")
			c := code
			for i := 0; i < n; i++ {
				ch := c % 12
				c /= 12
				t := T[ch%2]
				dec := "A"
				if (ch/2)%2 == 1 {
					dec = "D"
				}
				cmd := []byte{byte('a' + i)}
				g.Op("req %s v:%d:1 %s %s", intentWords(g, t, 2, cmd, 10+i, false), 1+i, dec, answers[ch/4])
			}
		}
	}

	// random: all set-up behaviours, all target behaviours, random field values, junk
	nrand := 1500
	if g.Thorough() {
		nrand = 40000 / g.Parts
	}
	gtypes := []int{1, 2, 2, 2, 5, 0, 6, 255}
	lens := []int{0, 1, 1, 3, 8, 8, 40, 200}
	for c := 0; c < nrand; c++ {
		g.Op("new")
		// a few targets that differ in exactly one component of the URL
		base := tgt{randStr(g.R, []int{0, 1, 4, 8, 255}), randStr(g.R, lens), Pick(g.R, []int{0, 1, 22, 7777, 65535})}
		ts := []tgt{base, base, base,
			{append(append([]byte{}, base.user...), 'x')[:min(255, len(base.user)+1)], base.sni, base.port},
			{base.user, append([]byte("y"), base.sni...)[:min(200, len(base.sni)+1)], base.port},
			{base.user, base.sni, (base.port + 1) % 65536}}
		if len(ts[3].user) == len(base.user) {
			ts[3].user = []byte("u")
		}
		if len(ts[4].sni) == len(base.sni) {
			ts[4].sni = []byte("s")
		}
		n := 1 + g.R.Intn(8)
		skipOK := g.R.Chance(1, 6)
		for i := 0; i < n; i++ {
			if g.R.Chance(1, 25) {
				g.Op("junk %s %d", Pick(g.R, []string{"conf", "denied", "comm", "trunc", "badtype", "pf3", "pf4"}), g.R.Intn(1000))
				continue
			}
			t := Pick(g.R, ts)
			gt := Pick(g.R, gtypes)
			cmd := randStr(g.R, []int{0, 1, 2, 5, 20, 255})
			setup := "v:" + strconv.Itoa(g.R.Intn(4)) + ":1"
			switch {
			case g.R.Chance(1, 8):
				setup = "early"
			case g.R.Chance(1, 8):
				setup = "v:" + strconv.Itoa(g.R.Intn(4)) + ":0"
			case skipOK && g.R.Chance(1, 3):
				setup = "skip"
			}
			dec := Pick(g.R, []string{"A", "A", "D"})
			ans := Pick(g.R, []string{"confirm", "confirm", "deny", "close", "garbage", "wfail"})
			g.Op("req %s %s %s %s", intentWords(g, t, gt, cmd, g.R.Intn(50), g.R.Chance(1, 2)), setup, dec, ans)
		}
	}
	malformed(g, "req")
}

func genTarget(g *GenCtx) {
	g.R = NewRng(g.R.U64() + uint64(g.Part)*0x9E3779B97F4A7C15) // parts draw different random cases

	T := tgt{[]byte("user"), []byte("target"), 7777}
	g.Op("new")
	for _, ca := range []string{"1 1", "1 0", "0 1", "0 0", "1 1"} {
		g.Op("comm %s %s", intentWords(g, T, 2, []byte("ls"), 3, false), ca)
	}
	n := 600
	if g.Thorough() {
		n = 20000 / g.Parts
	}
	for c := 0; c < n; c++ {
		g.Op("new")
		k := 1 + g.R.Intn(6)
		for i := 0; i < k; i++ {
			if g.R.Chance(1, 20) {
				g.Op("junk %s %d", Pick(g.R, []string{"conf", "denied", "req", "trunc", "badtype", "pf3", "pf4"}), g.R.Intn(1000))
				continue
			}
			t := tgt{randStr(g.R, []int{0, 1, 4, 255}), randStr(g.R, []int{0, 1, 6, 200}), Pick(g.R, []int{0, 22, 65535})}
			g.Op("comm %s %d %d", intentWords(g, t, Pick(g.R, []int{1, 2, 2, 5, 0, 200}), randStr(g.R, []int{0, 1, 9, 255}), g.R.Intn(50), true),
				g.R.Intn(2), g.R.Intn(2))
		}
	}
	malformed(g, "comm")
}

// malformed stream: both sides must answer bad-op and must not let the line influence the case
func malformed(g *GenCtx, op string) {
	T := tgt{[]byte("user"), []byte("target"), 7777}
	good := intentWords(g, T, 2, []byte("ls"), 1, false)
	tail := " v:1:1 A confirm"
	if op == "comm" {
		tail = " 1 1"
	}
	g.Op("new")
	g.Op("%s %s%s", op, good, tail)
	bads := []string{
		op, op + " " + good, op + " " + good + tail + " extra", "frob 1 2",
		op + " " + strings.Replace(good, "2 0 7777", "3 0 7777", 1) + tail,
		op + " " + strings.Replace(good, "2 0 7777", "4 0 7777", 1) + tail,
		op + " " + strings.Replace(good, "2 0 7777", "256 0 7777", 1) + tail,
		op + " " + strings.Replace(good, "2 0 7777", "2 0 65536", 1) + tail,
		op + " " + strings.Replace(good, "2 0 7777", "1 0 7777", 1) + tail, // command text on a shell grant
		op + " " + strings.Replace(good, " 1700000000 ", " 9223372036854775808 ", 1) + tail,
		op + " " + strings.Replace(good, " 1700000000 ", " -5 ", 1) + tail,
		op + " " + strings.Replace(good, " 75736572 ", " 7573657 ", 1) + tail,
		op + " " + strings.Replace(good, " 75736572 ", " zz ", 1) + tail,
		"junk", "junk nosuch 1", "junk conf x", "junk conf 100000", "new x",
	}
	if op == "req" {
		bads = append(bads, op+" "+good+" v:1:2 A confirm", op+" "+good+" v:x:1 A confirm", op+" "+good+" w A confirm",
			op+" "+good+" v:1:1 X confirm", op+" "+good+" v:1:1 A maybe", "comm "+good+" 1 1")
	} else {
		bads = append(bads, op+" "+good+" 2 1", op+" "+good+" 1 x", "req "+good+" v:1:1 A confirm")
	}
	for _, b := range bads {
		g.Op("%s", b)
	}
	g.Op("%s %s%s", op, good, tail)
}
