package main

import (
	"bufio"
	"bytes"
	"crypto/ed25519"
	"crypto/sha256"
	"encoding/pem"
	"errors"
	"fmt"
	"sort"
	"strconv"
	"strings"
	"time"

	"golang.org/x/crypto/curve25519"

	"hop.computer/hop/certs"
	. "hopverif/hvlib"
)

// C04 — certificate verification accepts exactly the valid chains.
//
// The generator builds certificate chains with real Ed25519 keys (hand-assembled and signed, or
// through the package's issuing functions), one mutation away from valid in about 60% of the
// scenarios, and writes for every concrete operation the abstract view the Lean model works on
// (after `::`): certificate records with small integer identities for public keys, fingerprints and
// signed byte strings, and a table of signature checks computed here with crypto/ed25519 over the
// bytes this harness holds — never through certs.VerifyParent.  `run` rebuilds the same objects from
// the concrete part and calls the real Store.VerifyLeaf / VerifyParent / MatchesName / issue.

func main() { Main(map[string]*Suite{"C04": {Gen: gen, Run: run}}) }

// ---------------------------------------------------------------- the world both gen and run execute

type obj struct {
	c      *certs.Certificate
	held   []byte // the bytes this harness holds for the object
	hasKey bool
	cands  [][32]byte // public keys against which the harness checks the object's signature itself
}

type tbsEntry struct {
	msg []byte
	sig [64]byte
	ok  bool
}

type world struct {
	objs   map[int]*obj
	store  certs.Store
	pks    map[[32]byte]int
	pkByID map[int][32]byte
	tbsEnt map[int]tbsEntry
	last   string
}

func newWorld() *world {
	return &world{objs: map[int]*obj{}, pks: map[[32]byte]int{}, pkByID: map[int][32]byte{}, tbsEnt: map[int]tbsEntry{}, last: "none"}
}

// Identities are derived from the bytes themselves (48 bits of SHA-256), so that an operation line
// keeps its meaning when other lines of the case are removed by the shrinker.
func hashID(kind string, b []byte) int {
	h := sha256.Sum256(append([]byte(kind), b...))
	return int(h[0])<<40 | int(h[1])<<32 | int(h[2])<<24 | int(h[3])<<16 | int(h[4])<<8 | int(h[5]) | 1<<48
}

func (w *world) fpID(f [32]byte) int {
	if f == ([32]byte{}) {
		return 0
	}
	return hashID("fp", f[:])
}

func (w *world) pkID(k [32]byte) int {
	id := hashID("pk", k[:])
	w.pks[k] = id
	w.pkByID[id] = k
	return id
}

func showNames(ns []certs.Name) string {
	if len(ns) == 0 {
		return "."
	}
	var s []string
	for _, n := range ns {
		s = append(s, fmt.Sprintf("%d:%s", n.Type, HexOrDash(n.Label)))
	}
	return strings.Join(s, ",")
}

// record is the abstract view of an object
func (w *world) record(o *obj) string {
	c := o.c
	rl := certs.VerifRawLen(c)
	var ent tbsEntry
	if rl >= 64 && rl <= len(o.held) {
		ent.msg, ent.ok = o.held[:rl-64], true
	}
	ent.sig = c.Signature
	key := fmt.Sprintf("%d|%x|%x", rl, ent.msg, ent.sig)
	tid := hashID("tbs", []byte(key))
	w.tbsEnt[tid] = ent
	hk := 0
	if o.hasKey {
		hk = 1
	}
	// the signature table: crypto/ed25519 over the bytes held here, for every candidate signer
	var valid []int
	// the all-zero key is always a candidate: it is what a certificate object holds whose parse failed
	// before the key field, and crypto/ed25519 does not reject such small-order keys (with an all-zero
	// signature it accepts about one message in four)
	for _, k := range append(append([][32]byte(nil), o.cands...), [32]byte{}) {
		if ent.ok && ed25519.Verify(ed25519.PublicKey(k[:]), ent.msg, ent.sig[:]) {
			valid = append(valid, w.pkID(k))
		}
	}
	sort.Ints(valid)
	v := "."
	for i, id := range valid {
		if i > 0 && valid[i-1] == id {
			continue
		}
		if v == "." {
			v = strconv.Itoa(id)
		} else {
			v += "," + strconv.Itoa(id)
		}
	}
	return fmt.Sprintf("%d %s %d %d %d %d %d %d %d %d %d %d %s", c.Type, showNames(c.IDChunk.Blocks),
		c.IssuedAt.Unix(), c.IssuedAt.Nanosecond(), c.ExpiresAt.Unix(), c.ExpiresAt.Nanosecond(),
		w.pkID(c.PublicKey), w.fpID(c.Parent), w.fpID(c.Fingerprint), rl, tid, hk, v)
}

func provideKey(c *certs.Certificate, seed []byte) (ok bool) {
	defer func() {
		if recover() != nil {
			ok = false
		}
	}()
	var k [32]byte
	copy(k[:], seed)
	return c.ProvideKey(&k) == nil
}

func parseName(s string) (certs.Name, bool) {
	t, l, ok := strings.Cut(s, ":")
	if !ok || strings.Contains(l, ":") {
		return certs.Name{}, false
	}
	tn, err := strconv.ParseUint(t, 10, 8)
	lb, ok2 := Unhex(l)
	if err != nil || !ok2 {
		return certs.Name{}, false
	}
	if lb == nil {
		lb = []byte{}
	}
	return certs.Name{Type: certs.IDType(tn), Label: lb}, true
}

func parseNames(s string) ([]certs.Name, bool) {
	if s == "." {
		return nil, true
	}
	var out []certs.Name
	for _, p := range strings.Split(s, ",") {
		n, ok := parseName(p)
		if !ok {
			return nil, false
		}
		out = append(out, n)
	}
	return out, true
}

// fitForBundle: the bytes are one whole certificate (what a PEM block of a bundle must hold)
func fitForBundle(b []byte) bool {
	var c certs.Certificate
	n, err := c.ReadFrom(bytes.NewReader(b))
	return err == nil && int(n) == len(b)
}

func parseTime(s, ns string, allowZero bool) (time.Time, bool) {
	if s == "zero" {
		return time.Time{}, allowZero && ns == "0"
	}
	sec, err := strconv.ParseInt(s, 10, 64)
	nsec, err2 := strconv.ParseUint(ns, 10, 32)
	if err != nil || err2 != nil || nsec >= 1000000000 || strings.HasPrefix(s, "+") {
		return time.Time{}, false
	}
	return time.Unix(sec, int64(nsec)), true
}

func seed32(s string) ([]byte, bool) {
	b, ok := Unhex(s)
	return b, ok && len(b) == 32
}

func (w *world) getObj(s string) *obj {
	i, err := strconv.ParseUint(s, 10, 31)
	if err != nil || strings.HasPrefix(s, "+") {
		return nil
	}
	return w.objs[int(i)]
}

func idx(s string) (int, bool) {
	i, err := strconv.ParseUint(s, 10, 62)
	return int(i), err == nil && !strings.HasPrefix(s, "+")
}

// exec runs the concrete part of one operation line
func (w *world) exec(f []string) string {
	if n := len(f); n > 0 && strings.HasPrefix(f[n-1], "#") {
		f = f[:n-1]
	}
	var oracle []string
	for i, x := range f {
		if x == "::" {
			f, oracle = f[:i], f[i+1:]
			break
		}
	}
	no := len(oracle)
	switch {
	case len(f) == 1 && f[0] == "reset" && no == 0:
		w.store = certs.Store{}
		return "ok"
	case len(f) == 5 && f[0] == "cert" && no == 13:
		i, ok := idx(f[1])
		b, ok2 := Unhex(f[2])
		var seed []byte
		ok3 := f[3] == "-"
		if !ok3 {
			seed, ok3 = seed32(f[3])
		}
		var cands [][32]byte
		if f[4] != "." {
			for _, h := range strings.Split(f[4], ",") {
				k, okk := seed32(h)
				if !okk {
					return "bad-op"
				}
				cands = append(cands, [32]byte(k))
			}
		}
		if !ok || !ok2 || !ok3 {
			return "bad-op"
		}
		c := new(certs.Certificate)
		// a failed parse leaves a partially filled object, which a caller can still hand to VerifyLeaf
		c.ReadFrom(bytes.NewReader(b))
		o := &obj{c: c, held: b, cands: cands}
		if seed != nil {
			o.hasKey = provideKey(c, seed)
		}
		w.objs[i] = o
		return w.record(o)
	case len(f) >= 4 && f[0] == "set" && no == 0:
		o := w.getObj(f[1])
		if o == nil {
			return "bad-op"
		}
		switch {
		case len(f) == 4 && f[2] == "type":
			n, err := strconv.ParseUint(f[3], 10, 8)
			if err != nil {
				return "bad-op"
			}
			o.c.Type = certs.CertificateType(n)
		case len(f) == 4 && f[2] == "parentof":
			p := w.getObj(f[3])
			if p == nil {
				return "bad-op"
			}
			o.c.Parent = p.c.Fingerprint
		case len(f) == 4 && f[2] == "fpof":
			p := w.getObj(f[3])
			if p == nil {
				return "bad-op"
			}
			o.c.Fingerprint = p.c.Fingerprint
		case len(f) == 5 && (f[2] == "issued" || f[2] == "expires"):
			t, ok := parseTime(f[3], f[4], false)
			if !ok {
				return "bad-op"
			}
			if f[2] == "issued" {
				o.c.IssuedAt = t
			} else {
				o.c.ExpiresAt = t
			}
		default:
			return "bad-op"
		}
		w.record(o)
		return "ok"
	case len(f) == 2 && f[0] == "add" && no == 0:
		o := w.getObj(f[1])
		if o == nil {
			return "bad-op"
		}
		cp := *o.c // the store keeps what it was given, later `set`s do not reach it
		w.store.AddCertificate(&cp)
		return "ok"
	case len(f) >= 2 && f[0] == "addbundle" && no == 0:
		// the objects' bytes as one PEM bundle, read back with ReadManyCertificatesPEM and added to the
		// store certificate by certificate (certs.LoadRootStoreFromPEMFile)
		var bundle bytes.Buffer
		for _, id := range f[1:] {
			o := w.getObj(id)
			if o == nil || o.held == nil || !fitForBundle(o.held) {
				return "bad-op"
			}
			pem.Encode(&bundle, &pem.Block{Type: certs.PEMTypeHopCertificate, Bytes: o.held})
		}
		return Guard(func() string {
			cs, err := certs.ReadManyCertificatesPEM(&bundle)
			if err != nil {
				return "err"
			}
			for i := range cs {
				w.store.AddCertificate(&cs[i])
			}
			return fmt.Sprintf("ok %d", len(cs))
		})
	case len(f) == 8 && f[0] == "verify" && no == 0:
		leaf := w.getObj(f[1])
		var opts certs.VerifyOptions
		if f[2] != "-" {
			p := w.getObj(f[2])
			if p == nil {
				return "bad-op"
			}
			opts.PresentedIntermediate = p.c
		}
		if f[3] != "none" {
			n, ok := parseName(f[3])
			if !ok {
				return "bad-op"
			}
			opts.Name = n
		}
		now, ok := parseTime(f[4], f[5], true)
		_, ok2 := parseTime(f[6], f[7], false)
		if leaf == nil || !ok || !ok2 {
			return "bad-op"
		}
		opts.CurrentTime = now
		return Guard(func() string {
			err := w.store.VerifyLeaf(leaf.c, opts)
			if err == nil {
				w.last = "-"
				return "accept"
			}
			var ve certs.VerifyError
			if errors.As(err, &ve) {
				w.last = strconv.Itoa(int(ve.Reason()))
			} else {
				w.last = "?"
			}
			return "reject"
		})
	case len(f) == 1 && f[0] == "why" && no == 0:
		return w.last
	case len(f) == 3 && f[0] == "vparent" && no == 0:
		c, p := w.getObj(f[1]), w.getObj(f[2])
		if c == nil || p == nil {
			return "bad-op"
		}
		return Guard(func() string {
			if certs.VerifyParent(c.c, p.c) == nil {
				return "ok"
			}
			return "err"
		})
	case len(f) == 3 && f[0] == "match" && no == 0:
		c := w.getObj(f[1])
		n, ok := parseName(f[2])
		if c == nil || !ok {
			return "bad-op"
		}
		return Guard(func() string {
			if c.c.MatchesName(n) {
				return "1"
			}
			return "0"
		})
	case (len(f) == 9 && f[0] == "issue" || len(f) == 8 && f[0] == "issueleaf") && no == 4:
		leafOnly := f[0] == "issueleaf"
		g := f
		typ := uint64(certs.Leaf)
		if !leafOnly {
			var err error
			typ, err = strconv.ParseUint(f[3], 10, 8)
			if err != nil || typ < 1 || typ > 3 {
				return "bad-op"
			}
			g = append(append([]string{}, f[:3]...), f[4:]...)
		}
		i, ok := idx(g[1])
		parent := w.getObj(g[2])
		names, ok2 := parseNames(g[3])
		seed, ok3 := seed32(g[4])
		at, ok4 := parseTime(g[5], g[6], false)
		dur, err := strconv.ParseInt(g[7], 10, 64)
		if !ok || parent == nil || !ok2 || !ok3 || !ok4 || err != nil || strings.HasPrefix(g[7], "+") {
			return "bad-op"
		}
		id := &certs.Identity{Names: names}
		if typ == uint64(certs.Leaf) {
			p, _ := curve25519.X25519(seed, curve25519.Basepoint)
			copy(id.PublicKey[:], p)
		} else {
			copy(id.PublicKey[:], ed25519.NewKeyFromSeed(seed).Public().(ed25519.PublicKey))
		}
		return Guard(func() string {
			var c *certs.Certificate
			var err error
			if leafOnly {
				c, err = certs.IssueLeafAt(parent.c, id, at, time.Duration(dur))
			} else {
				c, err = certs.VerifIssue(parent.c, id, certs.CertificateType(typ), at, time.Duration(dur))
			}
			if err != nil {
				delete(w.objs, i)
				return "err"
			}
			held, err := c.Marshal()
			if err != nil {
				return "marshal-failed"
			}
			o := &obj{c: c, held: held, cands: [][32]byte{parent.c.PublicKey}}
			o.hasKey = provideKey(c, seed)
			w.objs[i] = o
			return w.record(o)
		})
	}
	return "bad-op"
}

func run(in *bufio.Scanner, out *bufio.Writer) {
	w := newWorld()
	for in.Scan() {
		f := strings.Fields(in.Text())
		var res string
		if len(f) == 1 && f[0] == "new" {
			w = newWorld()
			res = "ok"
		} else {
			res = w.exec(f)
		}
		out.WriteString(res)
		out.WriteByte('\n')
	}
}

// ---------------------------------------------------------------- generator

type certSpec struct {
	typ      byte
	names    []certs.Name
	iss, exp int64
	pub      [32]byte
	parent   [32]byte
	signer   []byte // Ed25519 seed; nil: all-zero signature
	sigFrom  []byte // take the signature from these certificate bytes instead of signing
}

func (s certSpec) bytes() []byte {
	c := certs.Certificate{Version: certs.Version, Type: certs.CertificateType(s.typ), IssuedAt: time.Unix(s.iss, 0),
		ExpiresAt: time.Unix(s.exp, 0), IDChunk: certs.IDChunk{Blocks: s.names}, PublicKey: s.pub, Parent: s.parent}
	b, err := c.Marshal()
	if err != nil {
		panic(err)
	}
	tbs := b[:len(b)-64]
	switch {
	case s.sigFrom != nil:
		copy(b[len(b)-64:], s.sigFrom[len(s.sigFrom)-64:])
	case s.signer != nil:
		copy(b[len(b)-64:], ed25519.Sign(ed25519.NewKeyFromSeed(s.signer), tbs))
	}
	return b
}

func edPub(seed []byte) (k [32]byte) {
	copy(k[:], ed25519.NewKeyFromSeed(seed).Public().(ed25519.PublicKey))
	return
}

type caseGen struct {
	g        *GenCtx
	r        *Rng
	w        *world
	next     int
	rootKeys [][]byte
	intKeys  [][]byte
	moreKeys [][]byte // further signer keys used in this case (other roots, foreign signers)
	extras   []int    // objects of earlier scenarios, usable as distractors
	// objects made by a `cert` line (parsed from bytes): what an issuing call returned is not
	// what parsing its serialization gives (sub-second times), so only these go into bundles
	fromBytes map[int]bool
}

// emitCert writes a cert line with its record as oracle and returns the object index
func (c *caseGen) emitCert(b []byte, seed []byte) int {
	i := c.next
	c.next++
	if c.fromBytes == nil {
		c.fromBytes = map[int]bool{}
	}
	c.fromBytes[i] = true
	sd := "-"
	if seed != nil {
		sd = fmt.Sprintf("%x", seed)
	}
	var ks []string
	for _, k := range append(append([][]byte{}, c.rootKeys...), append(c.intKeys, c.moreKeys...)...) {
		p := edPub(k)
		ks = append(ks, fmt.Sprintf("%x", p[:]))
	}
	l := fmt.Sprintf("cert %d %s %s %s", i, HexOrDash(b), sd, strings.Join(ks, ","))
	rec := c.w.exec(strings.Fields(l + " :: 0 . 0 0 0 0 0 0 0 0 0 0 ."))
	c.g.Op("%s :: %s", l, rec)
	return i
}

func (c *caseGen) plain(tag string, format string, a ...any) string {
	l := fmt.Sprintf(format, a...)
	res := c.w.exec(strings.Fields(l))
	if tag != "" {
		c.g.Op("%s #%s", l, tag)
	} else {
		c.g.Op("%s", l)
	}
	return res
}

func recField(rec string, k int) string {
	f := strings.Fields(rec)
	if len(f) != 13 {
		return "0"
	}
	return f[k]
}

func (c *caseGen) rec(i int) string { return c.w.record(c.w.objs[i]) }

var labels = []string{"a", "b.example", "host", "", "srv.hop.computer", "A"}

func (c *caseGen) randNames() []certs.Name {
	var ns []certs.Name
	for n := c.r.Intn(4); n > 0; n-- {
		t := certs.IDType(c.r.Intn(4))
		if c.r.Chance(1, 12) {
			t = certs.IDType(c.r.Intn(256))
		}
		ns = append(ns, certs.Name{Type: t, Label: []byte(Pick(c.r, labels))})
	}
	return ns
}

func showName(n certs.Name) string { return fmt.Sprintf("%d:%s", n.Type, HexOrDash(n.Label)) }

var spans = []int64{1, 2, 60, 3600, 86400, 10000000}

const farSpan = 200000000 // > 6 years: used when the real clock is consulted

// scenario builds one chain with at most one mutation and asks for its verification
func (c *caseGen) scenario() {
	r := c.r
	muts := []string{"leaf-type", "leaf-type-noresign", "leaf-type-struct", "leaf-expired", "leaf-notyet", "leaf-edge",
		"name-label", "name-type", "name-none-on-leaf", "name-empty-raw", "leaf-wrong-parent", "leaf-wrong-signer",
		"leaf-bitflip", "leaf-unsigned", "leaf-truncated", "inter-missing", "inter-type", "inter-expired", "inter-notyet",
		"inter-edge", "inter-unsigned", "inter-wrong-signer", "inter-wrong-parent", "inter-bitflip", "inter-bitflip-stored",
		"inter-fp-struct", "root-missing", "root-type", "root-expired", "root-notyet", "root-edge", "root-other",
		"pres-wrong", "pres-wrong-stored", "leaf-names-noresign", "leaf-window-noresign", "zero-time-expired"}
	m := "valid"
	if !r.Chance(2, 5) {
		m = Pick(r, muts)
	}
	realClock := m == "zero-time-expired" || (m == "valid" && r.Chance(1, 12))
	T := int64(1200000000 + r.Intn(1000000000))
	far := !realClock && r.Chance(1, 7)
	if far {
		// instants and windows far from today: around 2262-04-11 (where a count of nanoseconds since
		// 1970 leaves int64), 2100, 2300, 2600, 9999
		T = Pick(r, []int64{4102444800, 9223372036, 9223372037, 9223372000, 10413792000, 19880899200, 253402300799 - 20000000000}) + int64(r.Intn(1000))
	}
	if realClock {
		T = 1790000000 // the check runs after this instant and well before T + farSpan
	}
	span := func() int64 {
		if realClock {
			return farSpan + int64(r.Intn(1000))
		}
		if far && r.Chance(1, 2) {
			return Pick(r, []int64{1000000000, 5000000000, 10000000000, 18000000000}) // 30 .. 570 years
		}
		return Pick(r, spans)
	}
	rootKey, intKey := Pick(r, c.rootKeys), Pick(r, c.intKeys)
	rs := certSpec{typ: 3, iss: T - span(), exp: T + span(), pub: edPub(rootKey), signer: rootKey}
	is := certSpec{typ: 2, iss: T - span(), exp: T + span(), pub: edPub(intKey), signer: rootKey}
	ls := certSpec{typ: 1, iss: T - span(), exp: T + span(), signer: intKey, names: c.randNames()}
	copy(ls.pub[:], r.Bytes(32))
	if r.Chance(1, 4) {
		rs.names = c.randNames()
		is.names = c.randNames()
	}
	now, nowNs := T, int64(0)
	if r.Chance(1, 3) {
		nowNs = int64(r.Intn(1000000000))
	}
	// edge scenarios: one certificate has the binding bound, the clock sits on or beside it
	edgeTag := ""
	edge := func(s *certSpec) {
		others := []*certSpec{&rs, &is, &ls}
		d := int64(1 + r.Intn(50))
		if r.Chance(1, 2) { // expiry side
			s.exp = T + d
			for _, o := range others {
				if o != s && o.exp <= s.exp {
					o.exp = s.exp + 1 + int64(r.Intn(100))
				}
			}
			switch r.Intn(4) {
			case 0:
				now, nowNs, edgeTag = s.exp-1, 999999999, "exp-1ns"
			case 1:
				now, nowNs, edgeTag = s.exp, 0, "exp"
			case 2:
				now, nowNs, edgeTag = s.exp+1, 0, "exp+1s"
			default:
				now, nowNs, edgeTag = s.exp-1, 0, "exp-1s"
			}
		} else {
			s.iss = T - d
			for _, o := range others {
				if o != s && o.iss >= s.iss {
					o.iss = s.iss - 1 - int64(r.Intn(100))
				}
			}
			switch r.Intn(4) {
			case 0:
				now, nowNs, edgeTag = s.iss, 0, "iss"
			case 1:
				now, nowNs, edgeTag = s.iss-1, 999999999, "iss-1ns"
			case 2:
				now, nowNs, edgeTag = s.iss-1, 0, "iss-1s"
			default:
				now, nowNs, edgeTag = s.iss+1, 0, "iss+1s"
			}
		}
	}
	switch m {
	case "leaf-expired":
		ls.exp = T - int64(r.Intn(3))
		ls.iss = ls.exp - span()
	case "leaf-notyet":
		ls.iss = T + 1 + int64(r.Intn(3))
		ls.exp = ls.iss + span()
	case "inter-expired":
		is.exp = T - int64(r.Intn(3))
		is.iss = is.exp - span()
	case "inter-notyet":
		is.iss = T + 1 + int64(r.Intn(3))
		is.exp = is.iss + span()
	case "root-expired":
		rs.exp = T - int64(r.Intn(3))
		rs.iss = rs.exp - span()
	case "root-notyet":
		rs.iss = T + 1 + int64(r.Intn(3))
		rs.exp = rs.iss + span()
	case "zero-time-expired":
		x := Pick(r, []*certSpec{&rs, &is, &ls})
		x.exp = T - farSpan
		x.iss = x.exp - 1000
	case "leaf-edge":
		edge(&ls)
	case "inter-edge":
		edge(&is)
	case "root-edge":
		edge(&rs)
	case "valid":
		if r.Chance(1, 3) && !realClock {
			edge(Pick(r, []*certSpec{&rs, &is, &ls}))
			m = "edge"
		}
	case "leaf-type":
		ls.typ = Pick(r, []byte{0, 2, 3, 4, 255})
	case "inter-type":
		is.typ = Pick(r, []byte{1, 3, 0, 4})
	case "root-type":
		rs.typ = Pick(r, []byte{2, 1, 0, 4})
	case "leaf-unsigned":
		ls.signer = nil
	case "inter-unsigned":
		is.signer = nil
	case "leaf-wrong-signer":
		ls.signer = Pick(r, append(append([][]byte{}, c.rootKeys...), c.intKeys...))
		if bytes.Equal(ls.signer, intKey) {
			ls.signer = r.Bytes(32)
			c.moreKeys = append(c.moreKeys, ls.signer)
		}
	case "inter-wrong-signer":
		is.signer = Pick(r, append(append([][]byte{}, c.rootKeys...), c.intKeys...))
		if bytes.Equal(is.signer, rootKey) {
			is.signer = r.Bytes(32)
			c.moreKeys = append(c.moreKeys, is.signer)
		}
	}
	if edgeTag != "" {
		m += ":" + edgeTag
	}

	// ---- root
	root := c.emitCert(rs.bytes(), rootKey)
	fpR := c.w.objs[root].c.Fingerprint
	otherRoot := -1
	if m == "root-other" || m == "inter-wrong-parent" {
		// a second, genuine root with another key
		k2 := r.Bytes(32)
		c.moreKeys = append(c.moreKeys, k2)
		o := rs
		o.pub, o.signer = edPub(k2), k2
		otherRoot = c.emitCert(o.bytes(), k2)
	}
	// ---- intermediate
	is.parent = fpR
	if m == "inter-wrong-parent" {
		is.parent = c.w.objs[otherRoot].c.Fingerprint // names the other root, signed by ours
	}
	ib := is.bytes()
	inter := c.emitCert(ib, intKey)
	fpI := c.w.objs[inter].c.Fingerprint
	presented := inter
	genuineInter := inter
	switch m {
	case "inter-bitflip", "inter-bitflip-stored":
		fb := append([]byte{}, ib...)
		bit := r.Intn(len(fb) * 8)
		fb[bit/8] ^= 1 << (bit % 8)
		presented = c.emitCert(fb, nil)
	case "inter-fp-struct":
		// another intermediate object that claims the genuine one's fingerprint
		o := is
		o.exp += 5
		o.signer = r.Bytes(32)
		presented = c.emitCert(o.bytes(), nil)
		c.plain("", "set %d fpof %d", presented, inter)
	}
	// ---- leaf
	ls.parent = fpI
	if m == "leaf-wrong-parent" {
		if r.Chance(1, 2) {
			copy(ls.parent[:], r.Bytes(32))
		} else {
			ls.parent = fpR
		}
	}
	lb := ls.bytes()
	switch m {
	case "leaf-type-noresign":
		o := ls
		o.typ, o.sigFrom = Pick(r, []byte{0, 2, 3}), lb
		lb = o.bytes()
	case "leaf-names-noresign":
		o := ls
		o.names, o.sigFrom = append(append([]certs.Name{}, ls.names...), certs.DNSName("evil.example")), lb
		lb = o.bytes()
	case "leaf-window-noresign":
		o := ls
		o.exp, o.sigFrom = ls.exp+1+int64(r.Intn(1000)), lb
		lb = o.bytes()
	case "leaf-bitflip":
		lb = append([]byte{}, lb...)
		bit := r.Intn(len(lb) * 8)
		lb[bit/8] ^= 1 << (bit % 8)
	case "leaf-truncated":
		lb = lb[:r.Intn(len(lb))]
	}
	leaf := c.emitCert(lb, nil)
	if m == "leaf-truncated" && r.Chance(1, 2) {
		// a caller can complete the fields of the half-parsed object by hand
		c.plain("", "set %d type 1", leaf)
		c.plain("", "set %d parentof %d", leaf, inter)
		c.plain("", "set %d issued %d 0", leaf, ls.iss)
		c.plain("", "set %d expires %d 0", leaf, ls.exp)
	}
	if m == "leaf-type-struct" {
		c.plain("", "set %d type %d", leaf, Pick(r, []int{0, 2, 3, 77}))
	}
	// ---- store
	if r.Chance(1, 2) {
		c.plain("", "reset")
	}
	stored := r.Chance(1, 2) // intermediate taken from the store instead of presented
	pres := strconv.Itoa(presented)
	switch m {
	case "inter-missing":
		stored, pres = false, "-"
	case "inter-bitflip", "inter-fp-struct":
		stored = false
	case "inter-bitflip-stored":
		stored = true
	case "pres-wrong", "pres-wrong-stored":
		stored = m == "pres-wrong-stored"
		cands := append([]int{root, leaf}, c.extras...)
		pres = strconv.Itoa(Pick(r, cands))
	default:
		if stored && r.Chance(1, 2) {
			pres = "-"
		}
	}
	adds := []int{}
	if m != "root-missing" {
		adds = append(adds, root)
	}
	if m == "root-other" {
		adds = []int{otherRoot} // only the other root is trusted
	}
	if otherRoot >= 0 && m == "inter-wrong-parent" {
		adds = append(adds, otherRoot)
	}
	if stored {
		adds = append(adds, genuineInter)
	}
	for k := r.Intn(3); k > 0 && len(c.extras) > 0; k-- {
		adds = append(adds, Pick(r, c.extras))
	}
	if r.Chance(1, 6) {
		adds = append(adds, leaf)
	}
	for k := len(adds) - 1; k > 0; k-- {
		j := r.Intn(k + 1)
		adds[k], adds[j] = adds[j], adds[k]
	}
	bundled := false
	if len(adds) >= 2 && r.Chance(1, 3) {
		// the same additions as one PEM bundle (when every one of them is a whole certificate); the
		// bundle holds the certificates as their bytes say, whatever `set` did to the objects since
		fit := true
		var ids []string
		for _, a := range adds {
			o := c.w.objs[a]
			fit = fit && o != nil && o.held != nil && c.fromBytes[a] && fitForBundle(o.held)
			ids = append(ids, strconv.Itoa(a))
		}
		if fit {
			c.plain("", "addbundle %s", strings.Join(ids, " "))
			bundled = true
		}
	}
	for _, a := range adds {
		if bundled {
			break
		}
		c.plain("", "add %d", a)
	}
	// ---- requested name
	name := "none"
	if len(ls.names) > 0 && r.Chance(2, 3) {
		name = showName(Pick(r, ls.names))
	}
	switch m {
	case "name-label":
		name = showName(certs.Name{Type: certs.TypeDNSName, Label: []byte("other.example")})
		if len(ls.names) > 0 && r.Chance(1, 2) {
			n := Pick(r, ls.names)
			name = showName(certs.Name{Type: n.Type, Label: append(append([]byte{}, n.Label...), 'x')})
		}
	case "name-type":
		n := certs.Name{Type: certs.TypeDNSName, Label: []byte("a")}
		if len(ls.names) > 0 {
			n = Pick(r, ls.names)
		}
		n.Type = certs.IDType((int(n.Type) + 1 + r.Intn(3)) % 4)
		name = showName(n)
	case "name-none-on-leaf":
		name = "1:" + HexOrDash([]byte(Pick(r, labels)))
	case "name-empty-raw":
		name = "0:-"
	}
	ns, nn := strconv.FormatInt(now, 10), strconv.FormatInt(nowNs, 10)
	if realClock {
		ns, nn = "zero", "0"
		if r.Chance(1, 3) {
			ns = "-62135596800" // the same instant, spelled out
		}
	}
	c.plain(m, "verify %d %s %s %s %s %d 0", leaf, pres, name, ns, nn, T)
	c.plain("", "why")
	// ---- side observations on the same objects
	if r.Chance(1, 4) {
		c.plain("", "vparent %d %d", leaf, presented)
		c.plain("", "vparent %d %d", inter, root)
		c.plain("", "vparent %d %d", root, root)
		c.plain("", "vparent %d %d", Pick(r, []int{leaf, inter, root}), Pick(r, []int{leaf, inter, root}))
	}
	if r.Chance(1, 4) {
		c.plain("", "match %d %s", leaf, name2(r, ls.names))
		c.plain("", "match %d %s", inter, name2(r, is.names))
	}
	c.extras = append(c.extras, root, inter, leaf)
	if len(c.extras) > 12 {
		c.extras = c.extras[len(c.extras)-12:]
	}
}

func name2(r *Rng, ns []certs.Name) string {
	if len(ns) > 0 && r.Chance(2, 3) {
		n := Pick(r, ns)
		if r.Chance(1, 3) {
			n.Type = certs.IDType(r.Intn(4))
		}
		return showName(n)
	}
	return fmt.Sprintf("%d:%s", r.Intn(4), HexOrDash([]byte(Pick(r, labels))))
}

// issueScenario: chains made by the package's own issuing code
func (c *caseGen) issueScenario() {
	r := c.r
	muts := []string{"nokey", "dur0", "dur-neg", "before-parent", "at-parent-expiry", "after-parent", "name-too-long",
		"names-too-many", "leaf-under-root", "parent-unparsed"}
	m := "issued"
	if r.Chance(1, 3) {
		m = Pick(r, muts)
	}
	T := int64(1200000000 + r.Intn(1000000000))
	rootKey := Pick(r, c.rootKeys)
	rs := certSpec{typ: 3, iss: T - Pick(r, spans), exp: T + Pick(r, spans), pub: edPub(rootKey), signer: rootKey}
	rb := rs.bytes()
	seedOf := func(k []byte) []byte { return k }
	var root int
	switch m {
	case "nokey":
		root = c.emitCert(rb, nil)
	case "parent-unparsed":
		root = c.emitCert(rb[:len(rb)-1-r.Intn(70)], nil)
		c.plain("", "set %d type 3", root)
	default:
		root = c.emitCert(rb, seedOf(rootKey))
	}
	issue := func(kind string, i, parent int, typ int, names []certs.Name, seed []byte, at, atNs, dur int64) string {
		var l string
		if kind == "issueleaf" {
			l = fmt.Sprintf("issueleaf %d %d %s %x %d %d %d", i, parent, showNames(names), seed, at, atNs, dur)
		} else {
			l = fmt.Sprintf("issue %d %d %d %s %x %d %d %d", i, parent, typ, showNames(names), seed, at, atNs, dur)
		}
		res := c.w.exec(strings.Fields(l + " :: 0 0 0 ."))
		v := recField(res, 12)
		if v == "0" {
			v = "."
		}
		c.g.Op("%s :: %s %s %s %s #%s", l, recField(res, 6), recField(res, 8), recField(res, 10), v, m)
		return res
	}
	sec := int64(1000000000)
	randDur := func() int64 {
		switch r.Intn(4) {
		case 0:
			return 1 + int64(r.Intn(1000)) // nanoseconds
		case 1:
			return (1 + int64(r.Intn(100))) * sec
		case 2:
			return 400 * 86400 * sec // longer than most parents live: clamped
		default:
			return int64(r.Intn(20000000)) * sec / 7
		}
	}
	inWindow := func(iss, exp int64) (int64, int64) {
		at := iss + int64(r.Intn(int(exp-iss)))
		return at, int64(r.Intn(2)) * int64(r.Intn(1000000000))
	}
	intKey := Pick(r, c.intKeys)
	inter := c.next
	c.next++
	at, atNs := inWindow(rs.iss, rs.exp)
	dur := randDur()
	names := c.randNames()
	switch m {
	case "dur0":
		dur = 0
	case "dur-neg":
		dur = -1 - int64(r.Intn(1000))
	case "before-parent":
		at, atNs = rs.iss-1, Pick(r, []int64{0, 999999999})
	case "at-parent-expiry":
		at, atNs = rs.exp, 0
	case "after-parent":
		at, atNs = rs.exp+int64(r.Intn(5)), 1
	case "name-too-long":
		names = append(names, certs.Name{Type: 1, Label: bytes.Repeat([]byte{'x'}, 253+r.Intn(3))})
	case "names-too-many":
		for k := 0; k < 2+r.Intn(2); k++ {
			names = append(names, certs.Name{Type: 1, Label: bytes.Repeat([]byte{'y'}, 160+r.Intn(12))})
		}
	}
	res := issue("issue", inter, root, 2, names, intKey, at, atNs, dur)
	if res == "err" || len(strings.Fields(res)) != 13 {
		if m == "leaf-under-root" {
			return
		}
		// nothing further can be issued; still ask for a verification that names the missing object
		c.plain(m, "verify %d - none %d 0 %d 0", inter, T, T)
		return
	}
	ic := c.w.objs[inter].c
	leaf := c.next
	c.next++
	lat, latNs := inWindow(ic.IssuedAt.Unix(), ic.ExpiresAt.Unix()+1)
	if lat >= ic.ExpiresAt.Unix() {
		lat, latNs = ic.IssuedAt.Unix(), int64(ic.IssuedAt.Nanosecond())
	}
	if lat == ic.IssuedAt.Unix() && latNs < int64(ic.IssuedAt.Nanosecond()) {
		latNs = int64(ic.IssuedAt.Nanosecond())
	}
	lnames := c.randNames()
	leafSeed := r.Bytes(32)
	var lres string
	if m == "leaf-under-root" {
		lres = issue("issueleaf", leaf, root, 1, lnames, leafSeed, at, atNs, randDur())
	} else if r.Chance(1, 2) {
		lres = issue("issueleaf", leaf, inter, 1, lnames, leafSeed, lat, latNs, randDur())
	} else {
		lres = issue("issue", leaf, inter, 1, lnames, leafSeed, lat, latNs, randDur())
	}
	if lres == "err" || len(strings.Fields(lres)) != 13 {
		return
	}
	lc := c.w.objs[leaf].c
	// the same two certificates as a verifier sees them: serialized and parsed again
	interP, leafP := inter, leaf
	if r.Chance(1, 2) {
		interP = c.emitCert(c.w.objs[inter].held, nil)
		leafP = c.emitCert(c.w.objs[leaf].held, nil)
	}
	c.plain("", "reset")
	c.plain("", "add %d", root)
	pres := strconv.Itoa(interP)
	if r.Chance(1, 3) {
		c.plain("", "add %d", interP)
		pres = "-"
	}
	name := "none"
	if len(lnames) > 0 && r.Chance(1, 2) {
		name = showName(Pick(r, lnames))
	}
	type tm struct{ s, ns int64 }
	iss, exp := tm{lc.IssuedAt.Unix(), int64(lc.IssuedAt.Nanosecond())}, tm{lc.ExpiresAt.Unix(), int64(lc.ExpiresAt.Nanosecond())}
	if leafP != leaf {
		iss.ns, exp.ns = 0, 0
	}
	minus1 := func(t tm) tm {
		if t.ns == 0 {
			return tm{t.s - 1, 999999999}
		}
		return tm{t.s, t.ns - 1}
	}
	for _, q := range []struct {
		t   tm
		tag string
	}{{iss, "at-issue"}, {minus1(exp), "before-expiry"}, {exp, "at-expiry"}, {minus1(iss), "before-issue"}} {
		c.plain(m+":"+q.tag, "verify %d %s %s %d %d %d 0", leafP, pres, name, q.t.s, q.t.ns, T)
		c.plain("", "why")
	}
	c.extras = append(c.extras, root, interP, leafP)
}

func gen(g *GenCtx) {
	if g.Parts > 1 { // every part of a split run gets its own random stream
		g.R = NewRng(g.R.U64() + uint64(g.Part)*0x9E3779B97F4A7C15)
	}
	n := 380
	if g.Thorough() {
		n = 25000 / g.Parts
	}
	for k := 0; k < n; k++ {
		g.Op("new")
		c := &caseGen{g: g, r: g.R, w: newWorld()}
		for i := 0; i < 2; i++ {
			c.rootKeys = append(c.rootKeys, g.R.Bytes(32))
		}
		for i := 0; i < 3; i++ {
			c.intKeys = append(c.intKeys, g.R.Bytes(32))
		}
		for s := 6 + g.R.Intn(5); s > 0; s-- {
			if g.R.Chance(1, 6) {
				c.issueScenario()
			} else {
				c.scenario()
			}
		}
	}
	if g.Thorough() {
		bitflipFamily(g)
	}
	// malformed operation lines
	g.Op("new")
	g.Op("verify 0 - none 1 0 1 0")
	g.Op("cert 1 zz - . :: 1 . 0 0 0 0 1 0 1 1 1 0 .")
	g.Op("cert 2 00 - .")
	g.Op("add 7")
	g.Op("verify 0 - 300:61 1 0 1 0")
	g.Op("verify 0 - none 1 1000000000 1 0")
	g.Op("set 0 type 300")
	g.Op("issue 5 0 9 . %x 1 0 1 :: 0 0 0 .", make([]byte, 32))
	g.Op("why now")
	g.Op("frobnicate")
}

// bitflipFamily: every single-bit flip of one verified leaf and of its intermediate, each against
// three store / presentation configurations (thorough tier; bits are split across the parts).
func bitflipFamily(g *GenCtx) {
	r := g.R
	fam := NewRng(7) // the same chain in every part
	rootKey, intKey := fam.Bytes(32), fam.Bytes(32)
	T := int64(1700000000)
	rs := certSpec{typ: 3, iss: T - 1000, exp: T + 1000, pub: edPub(rootKey), signer: rootKey}
	rb := rs.bytes()
	var c *caseGen
	var root, inter, leaf int
	var ib, lb []byte
	start := func() {
		g.Op("new")
		c = &caseGen{g: g, r: r, w: newWorld(), rootKeys: [][]byte{rootKey}, intKeys: [][]byte{intKey}}
		root = c.emitCert(rb, rootKey)
		is := certSpec{typ: 2, iss: T - 900, exp: T + 900, pub: edPub(intKey), signer: rootKey, parent: c.w.objs[root].c.Fingerprint,
			names: []certs.Name{certs.RawStringName("ca")}}
		ib = is.bytes()
		inter = c.emitCert(ib, intKey)
		ls := certSpec{typ: 1, iss: T - 800, exp: T + 800, signer: intKey, parent: c.w.objs[inter].c.Fingerprint,
			names: []certs.Name{certs.DNSName("host.example"), certs.RawStringName("x")}}
		copy(ls.pub[:], fam.Bytes(0))
		lb = ls.bytes()
		leaf = c.emitCert(lb, nil)
	}
	start()
	nbits := (len(ib) + len(lb)) * 8
	count := 0
	for b := 0; b < nbits; b++ {
		if b%g.Parts != g.Part {
			continue
		}
		if count > 0 && count%48 == 0 {
			start()
		}
		count++
		if b < len(lb)*8 {
			fb := append([]byte{}, lb...)
			fb[b/8] ^= 1 << (b % 8)
			l2 := c.emitCert(fb, nil)
			c.plain("", "reset")
			c.plain("", "add %d", root)
			c.plain("leaf-bitflip", "verify %d %d 1:%x %d 0 %d 0", l2, inter, "host.example", T, T)
			c.plain("", "why")
			c.plain("", "add %d", inter)
			c.plain("leaf-bitflip", "verify %d - none %d 0 %d 0", l2, T, T)
			c.plain("leaf-bitflip", "verify %d %d none %d 0 %d 0", l2, inter, T, T)
		} else {
			k := b - len(lb)*8
			fb := append([]byte{}, ib...)
			fb[k/8] ^= 1 << (k % 8)
			i2 := c.emitCert(fb, nil)
			c.plain("", "reset")
			c.plain("", "add %d", root)
			c.plain("inter-bitflip", "verify %d %d none %d 0 %d 0", leaf, i2, T, T)
			c.plain("", "why")
			c.plain("", "add %d", i2)
			c.plain("inter-bitflip", "verify %d - none %d 0 %d 0", leaf, T, T)
			c.plain("", "add %d", inter)
			c.plain("inter-bitflip-stored", "verify %d %d none %d 0 %d 0", leaf, i2, T, T)
		}
	}
	// the untouched chain verifies
	c.plain("", "reset")
	c.plain("", "add %d", root)
	c.plain("valid", "verify %d %d none %d 0 %d 0", leaf, inter, T, T)
}
