package main

import (
	"bufio"
	"bytes"
	"fmt"
	"strconv"
	"strings"
	"time"

	"hopverif/hs"
	. "hopverif/hvlib"
	"hopverif/tnet"
)

// C02 — tamper sweep.  Every line is its own case:
//
//	tam <xx|ik> <msg> <kind>       one handshake with message <msg> (c2s0, s2c0, c2s1, s2c1, c2s2) changed:
//	      none | flip:<field>:<permille>:<mask> | trunc:<field>:<permille> | ext:<n> | prime:<cut> | splice | zerocut:<k>
//	      -> c=<client ok> h=<handle offered> k=<equal keys> d=<directions differ>
//	sweep <xx|ik> <msg> <mask> <stride> <phase>    one handshake per byte offset ≡ phase (mod stride)
//	      -> bad=<handshakes in which the receiver completed>
//	distinct <n>                   n honest handshakes; all session ids and keys pairwise distinct -> ok | clash
func main() { Main(map[string]*Suite{"C02": {Gen: gen, Run: run}}) }

// fields per message in wire order (sizes; -1 = the encrypted certificates)
var layouts = map[string][]int{
	"xx:c2s0": {4, 800, 16},
	"xx:s2c0": {4, 768, 64, 16},
	"xx:c2s1": {4, 32, 800, 64, 256, 16},
	"xx:s2c1": {4, 4, 32, -1, 16, 16},
	"xx:c2s2": {4, 4, -1, 16, 16},
	"ik:c2s0": {4, 800, 768, -1, 16, 8, 16},
	"ik:s2c0": {4, 4, 768, -1, 16, 16},
}

var msgsOf = map[string][]string{"xx": {"c2s0", "s2c0", "c2s1", "s2c1", "c2s2"}, "ik": {"c2s0", "s2c0"}}

func gen(g *GenCtx) {
	idx := 0
	emit := func(format string, a ...any) {
		idx++
		if idx%g.Parts != g.Part {
			return
		}
		g.Op(format, a...)
	}
	masks := []int{0x01, 0x80, 0xff}
	for _, mode := range []string{"xx", "ik"} {
		emit("tam %s c2s0 none", mode)
		for _, msg := range msgsOf[mode] {
			lay := layouts[mode+":"+msg]
			for fi := range lay {
				// field boundaries and interior offsets
				pm := []int{0, 999, 500}
				for k := 0; k < 3; k++ {
					pm = append(pm, g.R.Intn(1000))
				}
				for _, p := range pm {
					emit("tam %s %s flip:%d:%d:%d", mode, msg, fi, p, Pick(g.R, masks))
				}
				emit("tam %s %s trunc:%d:0", mode, msg, fi)
				emit("tam %s %s trunc:%d:500", mode, msg, fi)
				emit("tam %s %s trunc:%d:999", mode, msg, fi)
			}
			for _, n := range []int{1, 15, 16, 17} {
				emit("tam %s %s ext:%d", mode, msg, n)
				if strings.HasPrefix(msg, "c2s") {
					emit("tam %s %s prime:%d", mode, msg, n)
				}
			}
			emit("tam %s %s splice", mode, msg)
			if msg == "s2c0" {
				// the client reads its first answer into a zeroed buffer: cut a trailing zero byte
				emit("tam %s %s zerocut:1", mode, msg)
			}
			if g.Thorough() {
				for _, m := range masks {
					for ph := 0; ph < 8; ph++ {
						emit("sweep %s %s %d 8 %d", mode, msg, m, ph)
					}
				}
			}
		}
	}
	emit("distinct 12")
	if g.Thorough() {
		emit("distinct 60")
	}
}

func b(v bool) int {
	if v {
		return 1
	}
	return 0
}

// offsetOf converts (field, permille) to an absolute offset for a concrete datagram.
func offsetOf(lay []int, data []byte, field, permille int) (start, size int, ok bool) {
	n := len(data)
	for _, s := range lay {
		if s > 0 {
			n -= s
		}
	}
	pos := 0
	for i, s := range lay {
		if s < 0 {
			s = n
		}
		if i == field {
			return pos, s, s > 0 || permille == 0
		}
		pos += s
	}
	return 0, 0, false
}

type tamper struct {
	mode, msg, kind string
	applied         bool
	spliceWith      [][]byte // the parallel handshake's datagrams of the same direction
}

func (t *tamper) hook(dir string, idx int, data []byte) [][]byte {
	name := fmt.Sprintf("%s%d", dir, idx)
	if name != t.msg || t.kind == "none" {
		return [][]byte{data}
	}
	t.applied = true
	lay := layouts[t.mode+":"+t.msg]
	f := strings.Split(t.kind, ":")
	num := func(i int) int { v, _ := strconv.Atoi(f[i]); return v }
	d := append([]byte(nil), data...)
	switch f[0] {
	case "flip":
		start, size, ok := offsetOf(lay, d, num(1), num(2))
		if !ok || size == 0 {
			return [][]byte{data}
		}
		d[start+num(2)*size/1000] ^= byte(num(3))
		return [][]byte{d}
	case "abs": // absolute offset (sweeps)
		if num(1) < len(d) {
			d[num(1)] ^= byte(num(2))
		}
		return [][]byte{d}
	case "trunc":
		start, size, _ := offsetOf(lay, d, num(1), num(2))
		cut := start + num(2)*size/1000
		if cut >= len(d) {
			cut = len(d) - 1
		}
		return [][]byte{d[:cut]}
	case "ext":
		return [][]byte{append(d, make([]byte, num(1))...)}
	case "prime":
		// stale-buffer priming: first a datagram the receiver ignores (unknown type byte) that
		// carries the original bytes at the same offsets, then the truncated original
		junk := append([]byte(nil), data...)
		junk[0] = 0x7f
		cut := len(d) - num(1)
		if cut < 4 {
			cut = 4
		}
		return [][]byte{junk, d[:cut]}
	case "splice":
		if idx < len(t.spliceWith) {
			return [][]byte{t.spliceWith[idx]}
		}
		return [][]byte{data}
	}
	return [][]byte{data}
}

// runZeroCut repeats handshakes until the message ends in k zero bytes, and cuts exactly those off:
// a receiver that reads beyond the datagram into a zeroed buffer cannot tell.
func runZeroCut(mode, msg string, k int) string {
	sc := hs.Scenario{Hidden: mode == "ik", Policy: "store", ServerAdv: "ok", ClientAdv: "ok"}
	for try := 0; try < 20000; try++ {
		hit := false
		hook := func(dir string, idx int, data []byte) [][]byte {
			if fmt.Sprintf("%s%d", dir, idx) != msg || len(data) <= k {
				return [][]byte{data}
			}
			for _, b := range data[len(data)-k:] {
				if b != 0 {
					return nil // not this time: drop it, the handshake is abandoned
				}
			}
			hit = true
			return [][]byte{data[:len(data)-k]}
		}
		r := hs.Run(sc, hook)
		if hit {
			return fmt.Sprintf("c=%d h=%d k=%d d=%d", b(r.ClientOK), b(r.Handle), b(r.KeysEq), b(r.DirsDiff))
		}
	}
	return "no-zero-tail-found"
}

func runTam(mode, msg, kind string) string {
	if strings.HasPrefix(kind, "zerocut:") {
		k, _ := strconv.Atoi(kind[8:])
		if k < 1 || k > 2 {
			return "bad-op"
		}
		return runZeroCut(mode, msg, k)
	}
	sc := hs.Scenario{Hidden: mode == "ik", Policy: "store", ServerAdv: "ok", ClientAdv: "ok"}
	t := &tamper{mode: mode, msg: msg, kind: kind}
	sv, kemPub, _ := hs.BuildServer(sc)
	cl := hs.BuildClient(sc, 1, kemPub)
	defer sv.Close()
	defer cl.Close()
	if kind == "splice" {
		// a parallel honest handshake of another client with the same server supplies the datagrams
		other := hs.BuildClient(sc, 2, kemPub)
		defer other.Close()
		dir := msg[:3]
		for _, d := range tnet.Pump(sv, other, tnet.Addr(2), nil) {
			isC2S := d.Dst != nil && d.Dst.Port == tnet.ServerAddr.Port
			if (dir == "c2s") == isC2S {
				t.spliceWith = append(t.spliceWith, d.Data)
			}
		}
		// forget the parallel handshake's connection offer
		for {
			if _, _, p := sv.S.VerifTableSizes(); p == 0 {
				break
			}
			sv.S.AcceptTimeout(time.Second)
		}
	}
	r := hs.Finish(sv, cl, tnet.Pump(sv, cl, tnet.Addr(1), t.hook))
	return fmt.Sprintf("c=%d h=%d k=%d d=%d", b(r.ClientOK), b(r.Handle), b(r.KeysEq), b(r.DirsDiff))
}

func runSweep(mode, msg string, mask, stride, phase int) string {
	sc := hs.Scenario{Hidden: mode == "ik", Policy: "store", ServerAdv: "ok", ClientAdv: "ok"}
	// learn the message length from one honest run
	honest := hs.Run(sc, nil)
	var length int
	nc, ns := 0, 0
	for _, d := range honest.Dgrams {
		isC2S := d.Dst != nil && d.Dst.Port == tnet.ServerAddr.Port
		name := ""
		if isC2S {
			name = fmt.Sprintf("c2s%d", nc)
			nc++
		} else {
			name = fmt.Sprintf("s2c%d", ns)
			ns++
		}
		if name == msg {
			length = len(d.Data)
		}
	}
	bad, n := 0, 0
	for off := phase; off < length; off += stride {
		t := &tamper{mode: mode, msg: msg, kind: fmt.Sprintf("abs:%d:%d", off, mask)}
		r := hs.Run(sc, t.hook)
		n++
		receiverCompleted := r.Handle
		if strings.HasPrefix(msg, "s2c") {
			receiverCompleted = r.ClientOK
		}
		if mode == "ik" && msg == "c2s0" {
			receiverCompleted = r.Handle
		}
		if receiverCompleted {
			bad++
		}
	}
	_ = n
	return fmt.Sprintf("bad=%d", bad)
}

func runDistinct(n int) string {
	sc := hs.Scenario{Policy: "store", ServerAdv: "ok", ClientAdv: "ok"}
	var seen [][]byte
	for i := 0; i < n; i++ {
		sc.Hidden = i%2 == 1
		r := hs.Run(sc, nil)
		if r.CInfo == nil || !r.KeysEq {
			return "handshake-failed"
		}
		for _, k := range [][]byte{r.CInfo.SessionID[:], r.CInfo.ClientToServerKey[:], r.CInfo.ServerToClientKey[:]} {
			for _, s := range seen {
				if bytes.Equal(s, k) {
					return "clash"
				}
			}
			seen = append(seen, append([]byte(nil), k...))
		}
	}
	return "ok"
}

func run(in *bufio.Scanner, out *bufio.Writer) {
	for in.Scan() {
		f := strings.Fields(in.Text())
		res := "bad-op"
		switch {
		case len(f) == 4 && f[0] == "tam" && layouts[f[1]+":"+f[2]] != nil:
			res = Guard(func() string { return runTam(f[1], f[2], f[3]) })
		case len(f) == 6 && f[0] == "sweep" && layouts[f[1]+":"+f[2]] != nil:
			m, e1 := strconv.Atoi(f[3])
			st, e2 := strconv.Atoi(f[4])
			ph, e3 := strconv.Atoi(f[5])
			if e1 == nil && e2 == nil && e3 == nil && st > 0 && m > 0 && m < 256 {
				res = Guard(func() string { return runSweep(f[1], f[2], m, st, ph) })
			}
		case len(f) == 2 && f[0] == "distinct":
			if n, err := strconv.Atoi(f[1]); err == nil && n > 0 && n <= 200 {
				res = Guard(func() string { return runDistinct(n) })
			}
		}
		out.WriteString(res)
		out.WriteByte('\n')
		out.Flush()
	}
}
