package main

import (
	"bufio"
	"fmt"
	"strconv"
	"strings"

	"hop.computer/hop/tubes"
	. "hopverif/hvlib"
)

// C08 — reliable tubes deliver the written byte stream in order, intact and complete.
//
// Suite C08 (diff): the bare receiver / sender of hop-go stepped through the verif hooks on
// generated arrival sequences and write/ack sequences; every output line is compared with the
// Lean model (Model/Receiver.lean, Model/Sender.lean).
// Suite C08sys (monitor): see sys.go.

func main() {
	Main(map[string]*Suite{
		"C08":    {Gen: genCore, Run: runCore},
		"C08sys": {Gen: genSys, Run: runSys}, "C09sys": {Gen: genSysSmall, Run: runSys},
	})
}

const two32 = uint64(1) << 32

// ---------------------------------------------------------------- generator (core)

type rxCase struct {
	g      *GenCtx
	start  uint64   // number of the first data frame (= windowStart)
	chunks [][]byte // honest chunks
	salt   uint64
	fin    bool // does the stream have a FIN
}

// content of the frame with 64-bit number n: honest inside the stream, a fixed pseudo-random
// function of the number outside (so that equal numbers always carry equal content)
func (c *rxCase) frame(n uint64) (data []byte, fin bool) {
	if n >= c.start && n < c.start+uint64(len(c.chunks)) {
		return c.chunks[n-c.start], false
	}
	if c.fin && n == c.start+uint64(len(c.chunks)) {
		return nil, true
	}
	r := NewRng(c.salt ^ (n & 0xffffffff))
	return r.Bytes(1 + r.Intn(3)), false
}

func (c *rxCase) rcv(n uint64) {
	d, fin := c.frame(n)
	fl := "L"
	if fin {
		fl = "LAF"
	}
	c.g.Op("rcv %d %s %s", n%two32, fl, HexOrDash(d))
}

func genRx(g *GenCtx, wrapBias bool) {
	c := &rxCase{g: g, salt: g.R.U64(), fin: g.R.Chance(4, 5)}
	// position
	var ack uint64
	switch {
	case !wrapBias && g.R.Chance(1, 2):
		ack = uint64(g.R.Intn(2)) // 0: newReceiver, 1: after initiation
	case g.R.Chance(1, 3):
		ack = uint64(g.R.Intn(3000))
	default:
		epoch := uint64(g.R.Intn(4))
		off := Pick(g.R, []uint64{0, 1, 2, 5, 1 << 31, 1<<31 - 1, 1<<31 + 1, 1<<31 - 4, two32 - 1, two32 - 2, two32 - 5, two32 - 1001, two32 - 999, 12345})
		ack = epoch*two32 + off
		if g.R.Chance(1, 3) {
			ack += uint64(g.R.Intn(7))
		}
	}
	d := uint64(g.R.Intn(2))
	if ack == 0 {
		d = 1
	}
	c.start = ack + d
	g.Op("new rx %d %d", ack, c.start)
	n := g.R.Intn(10)
	for i := 0; i < n; i++ {
		c.chunks = append(c.chunks, g.R.Bytes(1+g.R.Intn(5)))
	}
	total := uint64(n)
	if c.fin {
		total++
	}
	// arrival order
	var order []uint64
	for i := uint64(0); i < total; i++ {
		order = append(order, c.start+i)
	}
	switch g.R.Intn(5) {
	case 0: // in order
	case 1: // reversed
		for i, j := 0, len(order)-1; i < j; i, j = i+1, j-1 {
			order[i], order[j] = order[j], order[i]
		}
	case 2, 3: // shuffled
		for i := len(order) - 1; i > 0; i-- {
			j := g.R.Intn(i + 1)
			order[i], order[j] = order[j], order[i]
		}
	case 4: // FIN first, then shuffled data
		if c.fin && len(order) > 1 {
			order[0], order[len(order)-1] = order[len(order)-1], order[0]
		}
	}
	steps := len(order) + g.R.Intn(8)
	k := 0
	for s := 0; s < steps || k < len(order); s++ {
		switch x := g.R.Intn(20); {
		case x < 9 && k < len(order):
			c.rcv(order[k])
			k++
		case x < 11 && k > 0: // duplicate of something already delivered
			c.rcv(order[g.R.Intn(k)])
		case x < 12 && len(order) > 0: // any frame of the stream
			c.rcv(order[g.R.Intn(len(order))])
		case x == 12: // window edges and beyond
			ws := c.start + uint64(g.R.Intn(len(order)+1))
			c.rcv(ws + Pick(g.R, []uint64{999, 1000, 1001, 1002, 5000}))
		case x == 13: // stale
			back := Pick(g.R, []uint64{1, 2, 3, 1000, 1001})
			if c.start+total >= back {
				c.rcv(c.start + total - back)
			}
		case x == 14: // far away: near the half-range where unwrapping flips
			c.rcv(c.start + Pick(g.R, []uint64{1<<31 - 2, 1<<31 - 1, 1 << 31, 1<<31 + 1, 1<<31 + 2, 1<<32 - 1, 1 << 32}))
		case x == 15: // keep-alive / pure ACK / RTR ack
			g.Op("rcv %d %s -", (c.start+uint64(g.R.Intn(12)))%two32, Pick(g.R, []string{"LA", "LAT", "L", "-"}))
		case x == 16: // data frame that also carries ACK (must not be admitted)
			nn := c.start + uint64(g.R.Intn(len(order)+1))
			dd, _ := c.frame(nn)
			if len(dd) > 0 {
				g.Op("rcv %d LA %s", nn%two32, HexOrDash(dd))
			}
		default:
			g.Op("read %d", Pick(g.R, []int{0, 1, 2, 3, 7, 64}))
		}
	}
	g.Op("read 64")
	g.Op("read 64")
}

// the malformed stream: frames an honest sender never produces (FIN with data, FIN at a data
// number) — still a function of the wire number, so heap ties stay invisible
func genRxMalformed(g *GenCtx) {
	ack := uint64(g.R.Intn(2))
	g.Op("new rx %d %d", ack, 1)
	salt := g.R.U64()
	for i := 0; i < 25; i++ {
		n := uint64(1 + g.R.Intn(8))
		r := NewRng(salt ^ n)
		data := r.Bytes(r.Intn(4))
		fl := Pick(r, []string{"L", "L", "L", "LF", "LAF", "LA", "LT", "QL", "PL", "-"})
		if g.R.Chance(1, 4) {
			g.Op("read %d", g.R.Intn(9))
		} else {
			g.Op("rcv %d %s %s", n, fl, HexOrDash(data))
		}
	}
	g.Op("read 64")
}

func genTx(g *GenCtx) {
	var ack uint64
	var fno uint64
	switch g.R.Intn(4) {
	case 0:
		ack, fno = 1, 1
	case 1:
		fno = uint64(21 + g.R.Intn(1000))
		ack = fno
	case 2:
		fno = two32 - uint64(1+g.R.Intn(6))
		ack = fno
	default:
		fno = uint64(g.R.Intn(5))
		ack = two32 + fno
	}
	g.Op("new tx %d %d", ack, fno)
	pending := 0 // frames believed unacknowledged
	nops := 4 + g.R.Intn(10)
	for i := 0; i < nops; i++ {
		switch x := g.R.Intn(16); {
		case x < 5:
			l := Pick(g.R, []int{0, 1, 2, 5, 100, 1001, 32767, 32768, 32769, 65535, 65536, 65537, 100000})
			if l <= 5 {
				g.Op("write %s", HexOrDash(g.R.Bytes(l)))
			} else {
				g.Op("writep %d %d %d", l, g.R.Intn(256), g.R.Intn(256))
			}
			pending += (l + 32767) / 32768
		case x < 11:
			w := Pick(g.R, []int{10, 10, 11, 50, 1000})
			var k int
			switch g.R.Intn(8) {
			case 0:
				k = 0 // duplicate
			case 1:
				k = -1 - g.R.Intn(3) // old
			case 2:
				k = pending + 1 + g.R.Intn(3) // beyond anything sent
			case 3:
				k = pending
			default:
				k = g.R.Intn(pending + 1)
			}
			a := int64(ack) + int64(k)
			if a < 0 {
				a = 0
			}
			g.Op("ack %d %d", uint64(a)%two32, w)
			if k > 0 {
				if k > pending {
					k = pending
				}
				ack += uint64(k)
				pending -= k
			}
		case x < 12:
			g.Op("fin")
			pending++
		case x < 13: // a burst of duplicates up to the limit
			nb := Pick(g.R, []int{3, 99, 100, 101, 103})
			for j := 0; j < nb; j++ {
				g.Op("ack %d 10", ack%two32)
			}
		default:
			g.Op("ack %d %d", g.R.U64()%two32, Pick(g.R, []int{10, 1000}))
		}
		g.Op("st")
	}
}

func genFn(g *GenCtx, n int) {
	g.Op("new fn")
	offs := []uint64{0, 1, 2, 1<<31 - 1, 1 << 31, 1<<31 + 1, two32 - 2, two32 - 1}
	for i := 0; i < n; i++ {
		ack := uint64(g.R.Intn(5))*two32 + Pick(g.R, offs) + uint64(g.R.Intn(3))
		if g.R.Chance(1, 10) {
			ack = g.R.U64() >> uint(g.R.Intn(40))
		}
		var f uint64
		if g.R.Chance(1, 2) {
			f = (ack + Pick(g.R, offs)) % two32
		} else {
			f = (ack - Pick(g.R, offs)) % two32
		}
		g.Op("unwrap %d %d", ack, f)
		ws := ack
		if g.R.Chance(1, 20) {
			ws = ^uint64(0) - uint64(g.R.Intn(1200)) // window end wraps in uint64
		}
		// the send loop's frame budget: window, in flight, timeouts, buffer length around each other
		w := Pick(g.R, []uint64{0, 1, 7, 10, 11, 512, 1000, 65535}) + uint64(g.R.Intn(3))
		if w > 65535 {
			w = 65535
		}
		near := func(x uint64) int64 { return int64(x) + int64(g.R.Intn(5)) - 2 }
		u := near(Pick(g.R, []uint64{0, 1, w / 2, w}))
		if u < 0 || u > 65535 {
			u = 0
		}
		nf := near(Pick(g.R, []uint64{0, 1, w, 2 * w, 3}))
		if nf < 0 {
			nf = 0
		}
		c := near(Pick(g.R, []uint64{0, 1, w, uint64(nf)}))
		start := near(Pick(g.R, []uint64{0, 0, 0, uint64(nf), w, 1}))
		if g.R.Chance(4, 5) && (c < 0 || start < 0) {
			c, start = 0, 0
		}
		g.Op("fts %d %d %d %d %d %d", w, u, c, nf, g.R.Intn(2), start)
		g.Op("inb %d %d %d", ws, ws+1000, ws+Pick(g.R, []uint64{0, 1, 999, 1000, 1001, ^uint64(0), ^uint64(0) - 1, 2000, 1 << 40}))
	}
}

func genCore(g *GenCtx) {
	// fixed cases first
	g.Op("new rx 0 1")
	g.Op("rcv 2 L 0304")
	g.Op("rcv 1 L 0102")
	g.Op("rcv 3 LAF -")
	g.Op("read 3")
	g.Op("read 3")
	g.Op("new tx 1 1")
	g.Op("writep 70000 1 3")
	g.Op("st")
	g.Op("ack 3 10")
	g.Op("fin")
	g.Op("write 01")
	g.Op("st")
	nrx, ntx, nfn := 2500, 500, 2000
	if g.Thorough() {
		nrx, ntx, nfn = 60000/g.Parts, 8000/g.Parts, 40000/g.Parts
	}
	genFn(g, nfn)
	for i := 0; i < nrx; i++ {
		switch {
		case i%25 == 0:
			genRxMalformed(g)
		default:
			genRx(g, i%3 == 0)
		}
	}
	for i := 0; i < ntx; i++ {
		genTx(g)
	}
	// malformed lines
	g.Op("new rx 0 1")
	g.Op("rcv x L 00")
	g.Op("rcv 1 Z 00")
	g.Op("ack 1 1")
	g.Op("frobnicate")
}

// ---------------------------------------------------------------- runner (core)

func parseFlags(s string, f *tubes.VerifTFrame) bool {
	if s == "-" {
		return true
	}
	for _, c := range s {
		switch c {
		case 'Q':
			f.REQ = true
		case 'P':
			f.RESP = true
		case 'L':
			f.REL = true
		case 'A':
			f.ACK = true
		case 'F':
			f.FIN = true
		case 'T':
			f.RTR = true
		default:
			return false
		}
	}
	return true
}

func checksum(b []byte) uint32 {
	h := uint32(7)
	for _, x := range b {
		h = h*31 + uint32(x)
	}
	return h
}

func pattern(l, a, b int) []byte {
	out := make([]byte, l)
	for i := range out {
		out[i] = byte((a + i*b) % 256)
	}
	return out
}

func runCore(in *bufio.Scanner, out *bufio.Writer) {
	var rx *tubes.VerifReceiver
	var tx *tubes.VerifSender
	fn := false
	u64 := func(s string) (uint64, bool) {
		v, err := strconv.ParseUint(s, 10, 64)
		return v, err == nil
	}
	doWrite := func(b []byte) string {
		return Guard(func() string {
			n, err := tx.Write(b)
			tx.DrainSendQueue()
			if err != nil {
				return "eof"
			}
			return fmt.Sprintf("ok %d", n)
		})
	}
	for in.Scan() {
		f := strings.Fields(in.Text())
		res := "bad-op"
		switch {
		case len(f) == 4 && f[0] == "new" && f[1] == "rx":
			a, ok1 := u64(f[2])
			w, ok2 := u64(f[3])
			if ok1 && ok2 {
				rx, tx, fn = tubes.VerifNewReceiver(), nil, false
				rx.SetPosition(a, w)
				res = "ok"
			}
		case len(f) == 4 && f[0] == "new" && f[1] == "tx":
			a, ok1 := u64(f[2])
			n, ok2 := u64(f[3])
			if ok1 && ok2 && n < two32 {
				if tx != nil {
					tx.Close()
				}
				rx, tx, fn = nil, tubes.VerifNewSender(), false
				tx.SetPosition(a, uint32(n))
				res = "ok"
			}
		case len(f) == 2 && f[0] == "new" && f[1] == "fn":
			rx, tx, fn = nil, nil, true
			res = "ok"
		case len(f) == 4 && f[0] == "rcv" && rx != nil:
			no, ok1 := u64(f[1])
			var fr tubes.VerifTFrame
			ok2 := parseFlags(f[2], &fr)
			d, ok3 := Unhex(f[3])
			if ok1 && ok2 && ok3 && no < two32 && len(d) < 65536 {
				fr.FrameNo, fr.Data, fr.DataLength = uint32(no), d, uint16(len(d))
				res = Guard(func() string {
					fin, err := rx.Receive(fr)
					r := "ok0"
					switch {
					case err != nil && err.Error() == "EOF":
						r = "eof"
					case err != nil:
						r = "oob"
					case fin:
						r = "ok1"
					}
					return fmt.Sprintf("%s a=%d w=%d f=%d b=%d", r, rx.AckNo(), rx.WindowStart(), rx.Fragments(), rx.Buffered())
				})
			}
		case len(f) == 2 && f[0] == "read" && rx != nil:
			n, ok := u64(f[1])
			if ok && n < 1<<20 {
				if rx.Buffered() == 0 && !rx.Closed() {
					res = "block" // receiver.read would wait for data
				} else {
					res = Guard(func() string {
						buf := make([]byte, n)
						k, err := rx.Read(buf)
						e := " 0"
						if err != nil {
							e = " 1"
						}
						return HexOrDash(buf[:k]) + e
					})
				}
			}
		case len(f) == 2 && f[0] == "write" && tx != nil:
			if b, ok := Unhex(f[1]); ok {
				res = doWrite(b)
			}
		case len(f) == 4 && f[0] == "writep" && tx != nil:
			l, ok1 := u64(f[1])
			a, ok2 := u64(f[2])
			b, ok3 := u64(f[3])
			if ok1 && ok2 && ok3 && l <= 1000000 {
				res = doWrite(pattern(int(l), int(a), int(b)))
			}
		case len(f) == 3 && f[0] == "ack" && tx != nil:
			a, ok1 := u64(f[1])
			w, ok2 := u64(f[2])
			if ok1 && ok2 && a < two32 && w < 65536 {
				res = Guard(func() string {
					tx.SetWindow(uint16(w))
					_, err := tx.RecvAck(uint32(a))
					tx.DrainSendQueue()
					if err != nil {
						return "dup"
					}
					return "ok"
				})
			}
		case len(f) == 1 && f[0] == "fin" && tx != nil:
			res = Guard(func() string {
				err := tx.SendFin()
				tx.DrainSendQueue()
				if err != nil {
					return "eof"
				}
				return "ok"
			})
		case len(f) == 1 && f[0] == "st" && tx != nil:
			res = Guard(func() string {
				var parts []string
				for _, fr := range tx.Frames() {
					fl := ""
					if fr.ACK {
						fl += "A"
					}
					if fr.FIN {
						fl += "F"
					}
					if fl == "" {
						fl = "-"
					}
					parts = append(parts, fmt.Sprintf("%d:%d:%s:%d", fr.FrameNo, len(fr.Data), fl, checksum(fr.Data)))
				}
				return fmt.Sprintf("a=%d n=%d fs=%s", tx.AckNo(), tx.FrameNo(), strings.Join(parts, ","))
			})
		case len(f) == 3 && f[0] == "unwrap" && fn:
			a, ok1 := u64(f[1])
			n, ok2 := u64(f[2])
			if ok1 && ok2 && n < two32 {
				res = Guard(func() string { return strconv.FormatUint(tubes.VerifUnwrapFrameNo(a, uint32(n)), 10) })
			}
		case len(f) == 7 && f[0] == "fts" && fn:
			w, ok1 := u64(f[1])
			u, ok2 := u64(f[2])
			c, err3 := strconv.ParseInt(f[3], 10, 64)
			n, ok4 := u64(f[4])
			rto, ok5 := u64(f[5])
			start, err6 := strconv.ParseInt(f[6], 10, 64)
			const lim = 1000000000
			if ok1 && ok2 && err3 == nil && ok4 && ok5 && err6 == nil && w < 65536 && u < 65536 && n <= 1000000 && rto <= 1 &&
				c >= -lim && c <= lim && start >= -lim && start <= lim {
				res = Guard(func() string {
					return strconv.Itoa(tubes.VerifFramesToSend(uint16(w), uint16(u), int(c), int(n), rto == 1, int(start)))
				})
			}
		case len(f) == 4 && f[0] == "inb" && fn:
			a, ok1 := u64(f[1])
			b, ok2 := u64(f[2])
			c, ok3 := u64(f[3])
			if ok1 && ok2 && ok3 {
				if tubes.VerifFrameInBounds(a, b, c) {
					res = "1"
				} else {
					res = "0"
				}
			}
		}
		out.WriteString(res)
		out.WriteByte('\n')
	}
}
