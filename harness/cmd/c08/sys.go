package main

import (
	"bufio"

	. "hopverif/hvlib"
)

func genSys(g *GenCtx)                              {}
func runSys(in *bufio.Scanner, out *bufio.Writer) {}
