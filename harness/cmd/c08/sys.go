package main

import (
	"bufio"
	"errors"
	"fmt"
	"io"
	"net"
	"os"
	"strconv"
	"strings"
	"sync"
	"time"

	"github.com/sirupsen/logrus"

	"hop.computer/hop/tubes"
	. "hopverif/hvlib"
)

// Suite C08sys (monitor): two real muxers over an in-memory MsgConn pair whose datagrams are
// lost, duplicated, delayed/reordered and cut off by outages according to a seeded schedule;
// random write-size sequences in both directions of several reliable tubes at once; every writer
// closes its tube when done.  The observed trace (written / read / closed / eof per direction of
// each tube, in real-time order) is checked by the Lean monitor (Driver/C08.lean, Spec/Stream):
// reads are a prefix of what was written at every moment, EOF only after everything written
// before the close, and — the run claims the network recovers — everything arrives.
//
// Program lines of a case:
//   new <label>
//   net <seed> <loss%> <dup%> <reorder%> <maxdelay-ms> <outages start-end[,start-end…] in ms | ->
//   tubes <n>
//   w <c|s> <tube> <seed> <size,size,…>     writes of the given sizes (bytes from the seed), then Close
//   run <deadline-ms> <complete|any>

// ---------------------------------------------------------------- faulty network

type netCfg struct {
	seed                      uint64
	loss, dup, reorder, delay int
	outages                   [][2]int
}

type endpoint struct {
	name   string
	inbox  chan []byte
	peer   *endpoint
	mu     sync.Mutex
	rng    *Rng
	cfg    *netCfg
	start  time.Time
	closed chan struct{}
	once   sync.Once
	stats  *[4]int // sent, lost, dup, delayed
}

type saddr string

func (a saddr) Network() string { return "mem" }
func (a saddr) String() string  { return string(a) }

func (e *endpoint) deliver(b []byte) {
	select {
	case e.peer.inbox <- b:
	default: // receive queue full: dropped, like a socket buffer
	}
}

func (e *endpoint) WriteMsg(b []byte) error {
	select {
	case <-e.closed:
		return net.ErrClosed
	default:
	}
	c := append([]byte(nil), b...)
	e.mu.Lock()
	ms := int(time.Since(e.start) / time.Millisecond)
	out := false
	for _, o := range e.cfg.outages {
		if ms >= o[0] && ms < o[1] {
			out = true
		}
	}
	lost := out || e.rng.Intn(100) < e.cfg.loss
	dup := e.rng.Intn(100) < e.cfg.dup
	re := e.rng.Intn(100) < e.cfg.reorder
	d := 0
	if re && e.cfg.delay > 0 {
		d = 1 + e.rng.Intn(e.cfg.delay)
	}
	e.stats[0]++
	if lost {
		e.stats[1]++
	}
	e.mu.Unlock()
	if lost {
		return nil
	}
	send := func() {
		e.deliver(c)
		if dup {
			e.deliver(append([]byte(nil), c...))
		}
	}
	if d > 0 {
		time.AfterFunc(time.Duration(d)*time.Millisecond, send)
	} else {
		send()
	}
	return nil
}

func (e *endpoint) ReadMsg(b []byte) (int, error) {
	select {
	case m := <-e.inbox:
		return copy(b, m), nil
	case <-e.closed:
		return 0, net.ErrClosed
	}
}

func (e *endpoint) Read(b []byte) (int, error)  { return e.ReadMsg(b) }
func (e *endpoint) Write(b []byte) (int, error) { return len(b), e.WriteMsg(b) }
func (e *endpoint) Close() error {
	e.once.Do(func() { close(e.closed) })
	return nil
}
func (e *endpoint) LocalAddr() net.Addr                { return saddr(e.name) }
func (e *endpoint) RemoteAddr() net.Addr               { return saddr(e.peer.name) }
func (e *endpoint) SetDeadline(t time.Time) error      { return nil }
func (e *endpoint) SetReadDeadline(t time.Time) error  { return nil }
func (e *endpoint) SetWriteDeadline(t time.Time) error { return nil }

func newPair(cfg *netCfg) (*endpoint, *endpoint) {
	now := time.Now()
	a := &endpoint{name: "client", inbox: make(chan []byte, 8192), rng: NewRng(cfg.seed), cfg: cfg, start: now, closed: make(chan struct{}), stats: &[4]int{}}
	b := &endpoint{name: "server", inbox: make(chan []byte, 8192), rng: NewRng(cfg.seed + 77), cfg: cfg, start: now, closed: make(chan struct{}), stats: &[4]int{}}
	a.peer, b.peer = b, a
	return a, b
}

// ---------------------------------------------------------------- generator

func genSys(g *GenCtx) {
	n := 10
	if g.Thorough() {
		n = 8
	}
	for i := 0; i < n; i++ {
		g.Op("new sys-%d-%d", g.Part, i)
		loss := Pick(g.R, []int{0, 2, 5, 10, 20})
		dup := Pick(g.R, []int{0, 5, 20})
		re := Pick(g.R, []int{0, 10, 30})
		delay := Pick(g.R, []int{5, 30, 120})
		outages := "-"
		deadline := 45000
		if g.Thorough() && i%2 == 0 {
			// a long outage after the transfer started, then recovery
			st := 200 + g.R.Intn(300)
			outages = fmt.Sprintf("%d-%d", st, st+Pick(g.R, []int{12500, 14000, 15000}))
			deadline = 150000
			loss, dup, re = Pick(g.R, []int{0, 2}), 0, 0
		} else if g.R.Chance(1, 2) {
			st := 50 + g.R.Intn(300)
			outages = fmt.Sprintf("%d-%d", st, st+Pick(g.R, []int{200, 700, 1500}))
			if g.R.Chance(1, 3) {
				outages += fmt.Sprintf(",%d-%d", st+2500, st+2500+g.R.Intn(800))
			}
		}
		g.Op("net %d %d %d %d %d %s", g.R.U64()%1000000, loss, dup, re, delay, outages)
		nt := 1 + g.R.Intn(3)
		g.Op("tubes %d", nt)
		for t := 0; t < nt; t++ {
			for _, side := range []string{"c", "s"} {
				var sizes []string
				total := 0
				k := 1 + g.R.Intn(30)
				for j := 0; j < k && total < 120000; j++ {
					sz := Pick(g.R, []int{1, 2, 10, 100, 100, 1000, 1000, 1000, 5000, 5000, 32767, 32768, 32769, 40000})
					if g.Thorough() && outages != "-" && len(outages) > 9 {
						sz = Pick(g.R, []int{100, 1000, 3000}) // keep writing across the outage
					}
					total += sz
					sizes = append(sizes, strconv.Itoa(sz))
				}
				g.Op("w %s %d %d %s", side, t, g.R.U64()%1000000, strings.Join(sizes, ","))
			}
		}
		g.Op("run %d complete", deadline)
	}
}

// genSysSmall (suite C09sys, run by C09's check): a few lossy cases with an outage, so that timeout
// retransmissions and their acknowledgements occur while the shadow tubes listen
func genSysSmall(g *GenCtx) {
	n := 4
	if g.Thorough() {
		n = 12 / g.Parts
	}
	for i := 0; i < n; i++ {
		g.Op("new sys9-%d-%d", g.Part, i)
		st := 50 + g.R.Intn(200)
		g.Op("net %d %d %d %d %d %d-%d", g.R.U64()%1000000, Pick(g.R, []int{10, 20}), Pick(g.R, []int{0, 5}), Pick(g.R, []int{0, 10}),
			Pick(g.R, []int{5, 30}), st, st+Pick(g.R, []int{500, 900}))
		nt := 1 + g.R.Intn(3)
		g.Op("tubes %d", nt)
		for t := 0; t < nt; t++ {
			for _, side := range []string{"c", "s"} {
				var sizes []string
				k := 4 + g.R.Intn(12)
				if side == "s" {
					k = 1 + g.R.Intn(3) // unequal volume in the two directions
				}
				for j := 0; j < k; j++ {
					sizes = append(sizes, strconv.Itoa(Pick(g.R, []int{1, 10, 100, 1000, 1000, 5000})))
				}
				g.Op("w %s %d %d %s", side, t, g.R.U64()%1000000, strings.Join(sizes, ","))
			}
		}
		// completeness is C08's business (and subject to its known finding F28): here only what is
		// delivered matters - strays on the shadow tubes, streams that stop being prefixes
		g.Op("run 9000 any")
	}
}

// ---------------------------------------------------------------- runner

type wprog struct {
	side  string
	tube  int
	seed  uint64
	sizes []int
}

type sysCase struct {
	label    string
	cfg      netCfg
	ntubes   int
	writes   []wprog
	deadline int
	claim    string
	bad      bool
}

type trace struct {
	mu    sync.Mutex
	lines []string
}

func (t *trace) add(format string, a ...any) {
	t.mu.Lock()
	t.lines = append(t.lines, fmt.Sprintf(format, a...))
	t.mu.Unlock()
}

func quiet() *logrus.Entry {
	l := logrus.New()
	l.SetOutput(io.Discard)
	l.SetLevel(logrus.PanicLevel)
	return logrus.NewEntry(l)
}

func runOne(c *sysCase) []string {
	tr := &trace{}
	tr.add("new %s", c.label)
	if c.bad {
		tr.add("note bad-program")
		return tr.lines
	}
	a, b := newPair(&c.cfg)
	var mc, ms *tubes.Muxer
	var wg0 sync.WaitGroup
	wg0.Add(2)
	go func() { defer wg0.Done(); mc = tubes.Client(a, &tubes.Config{Log: quiet()}) }()
	go func() { defer wg0.Done(); ms = tubes.Server(b, &tubes.Config{Log: quiet()}) }()
	wg0.Wait()
	defer func() {
		go mc.Stop()
		go ms.Stop()
	}()
	deadline := time.Now().Add(time.Duration(c.deadline) * time.Millisecond)

	// open the tubes: the client creates, the server accepts; ids identify them
	ct := map[int]*tubes.Reliable{}
	st := map[int]*tubes.Reliable{}
	byID := map[byte]int{}
	for i := 0; i < c.ntubes; i++ {
		t, err := mc.CreateReliableTube(tubes.TubeType(1 + i))
		if err != nil {
			tr.add("note create-failed")
			return tr.lines
		}
		ct[i] = t
		byID[t.GetID()] = i
	}
	// shadow tubes: one unreliable tube per reliable one.  Identifiers are handed out per class, so
	// they carry the same ids.  Nobody ever writes on them: whatever one of their readers receives
	// was written on another tube (trace line `stray`).
	var shadows []*tubes.Unreliable
	for i := 0; i < c.ntubes; i++ {
		u, err := mc.CreateUnreliableTube(tubes.TubeType(1 + i))
		if err != nil {
			tr.add("note create-failed")
			return tr.lines
		}
		shadows = append(shadows, u)
	}
	acc := make(chan tubes.Tube, 2*c.ntubes)
	go func() {
		for i := 0; i < 2*c.ntubes; i++ {
			t, err := ms.Accept()
			if err != nil {
				return
			}
			acc <- t
		}
	}()
	for i := 0; i < 2*c.ntubes; i++ {
		select {
		case t := <-acc:
			if u, ok := t.(*tubes.Unreliable); ok {
				shadows = append(shadows, u)
				continue
			}
			st[byID[t.GetID()]] = t.(*tubes.Reliable)
		case <-time.After(time.Until(deadline)):
			tr.add("note accept-timeout")
			for j := 0; j < c.ntubes; j++ {
				tr.add("end c%d %s", j, c.claim)
				tr.add("end s%d %s", j, c.claim)
			}
			return tr.lines
		}
	}

	var wg sync.WaitGroup
	done := make(chan struct{})
	for k, u := range shadows {
		k, u := k, u
		go func() {
			buf := make([]byte, 1<<16)
			for {
				select {
				case <-done:
					return
				default:
				}
				u.SetReadDeadline(time.Now().Add(50 * time.Millisecond))
				n, err := u.Read(buf)
				if err == nil {
					tr.add("stray u%d/%d %s", u.GetID(), k, HexOrDash(buf[:n]))
					continue
				}
				if !errors.Is(err, os.ErrDeadlineExceeded) {
					return
				}
			}
		}()
	}
	endpointOf := func(side string, i int) *tubes.Reliable {
		if side == "c" {
			return ct[i]
		}
		return st[i]
	}
	// writers: direction name = writer side + tube index
	for _, w := range c.writes {
		w := w
		t := endpointOf(w.side, w.tube)
		dir := fmt.Sprintf("%s%d", w.side, w.tube)
		wg.Add(1)
		go func() {
			defer wg.Done()
			r := NewRng(w.seed)
			for _, sz := range w.sizes {
				d := r.Bytes(sz)
				tr.add("written %s %s", dir, HexOrDash(d))
				n, err := t.Write(d)
				if err != nil || n != len(d) {
					tr.add("note write-error %s %d/%d", dir, n, len(d))
					return
				}
				if r.Chance(1, 3) {
					time.Sleep(time.Duration(r.Intn(40)) * time.Millisecond)
				}
			}
			tr.add("closed %s", dir)
			t.Close()
			t.SetReadDeadline(time.Time{}) // Close cancels pending reads; this side keeps reading
		}()
	}
	// readers: the reader of direction c<i> is the server's end of tube i and vice versa
	for i := 0; i < c.ntubes; i++ {
		for _, side := range []string{"c", "s"} {
			dir := fmt.Sprintf("%s%d", side, i)
			var t *tubes.Reliable
			if side == "c" {
				t = st[i]
			} else {
				t = ct[i]
			}
			wg.Add(1)
			go func() {
				defer wg.Done()
				buf := make([]byte, 1<<16)
				for {
					select {
					case <-done:
						return
					default:
					}
					n, err := t.Read(buf)
					if n > 0 {
						tr.add("read %s %s", dir, HexOrDash(buf[:n]))
					}
					if err == io.EOF {
						tr.add("eof %s", dir)
						return
					}
					if err != nil {
						if errors.Is(err, os.ErrDeadlineExceeded) {
							t.SetReadDeadline(time.Time{})
							time.Sleep(2 * time.Millisecond)
							continue
						}
						tr.add("note read-error %s", dir)
						return
					}
				}
			}()
		}
	}
	fin := make(chan struct{})
	go func() { wg.Wait(); close(fin) }()
	select {
	case <-fin:
	case <-time.After(time.Until(deadline)):
		tr.add("note deadline")
		for i := 0; i < c.ntubes; i++ {
			tr.add("note state client tube %d: %s", i, strings.ReplaceAll(ct[i].VerifDebug(), " ", "_"))
			tr.add("note state server tube %d: %s", i, strings.ReplaceAll(st[i].VerifDebug(), " ", "_"))
		}
	}
	close(done)
	tr.mu.Lock()
	defer tr.mu.Unlock()
	lines := append([]string(nil), tr.lines...)
	lines = append(lines, fmt.Sprintf("note net client sent=%d lost=%d server sent=%d lost=%d", a.stats[0], a.stats[1], b.stats[0], b.stats[1]))
	for i := 0; i < c.ntubes; i++ {
		lines = append(lines, fmt.Sprintf("end c%d %s", i, c.claim), fmt.Sprintf("end s%d %s", i, c.claim))
	}
	return lines
}

func runSys(in *bufio.Scanner, out *bufio.Writer) {
	var cases []*sysCase
	var cur *sysCase
	for in.Scan() {
		f := strings.Fields(in.Text())
		if len(f) == 0 {
			continue
		}
		if f[0] == "new" {
			cur = &sysCase{label: strings.Join(f[1:], "_"), claim: "any", deadline: 1000}
			cases = append(cases, cur)
			continue
		}
		if cur == nil {
			continue
		}
		atoi := func(s string) int {
			v, err := strconv.Atoi(s)
			if err != nil {
				cur.bad = true
			}
			return v
		}
		switch {
		case f[0] == "net" && len(f) == 7:
			cur.cfg = netCfg{seed: uint64(atoi(f[1])), loss: atoi(f[2]), dup: atoi(f[3]), reorder: atoi(f[4]), delay: atoi(f[5])}
			if f[6] != "-" {
				for _, o := range strings.Split(f[6], ",") {
					p := strings.Split(o, "-")
					if len(p) != 2 {
						cur.bad = true
						continue
					}
					cur.cfg.outages = append(cur.cfg.outages, [2]int{atoi(p[0]), atoi(p[1])})
				}
			}
		case f[0] == "tubes" && len(f) == 2:
			cur.ntubes = atoi(f[1])
			if cur.ntubes < 1 || cur.ntubes > 8 {
				cur.bad = true
			}
		case f[0] == "w" && len(f) == 5 && (f[1] == "c" || f[1] == "s"):
			w := wprog{side: f[1], tube: atoi(f[2]), seed: uint64(atoi(f[3]))}
			for _, s := range strings.Split(f[4], ",") {
				sz := atoi(s)
				if sz < 0 || sz > 1<<20 {
					cur.bad = true
				}
				w.sizes = append(w.sizes, sz)
			}
			if w.tube < 0 || w.tube >= cur.ntubes {
				cur.bad = true
			}
			cur.writes = append(cur.writes, w)
		case f[0] == "run" && len(f) == 3 && (f[2] == "complete" || f[2] == "any"):
			cur.deadline, cur.claim = atoi(f[1]), f[2]
		default:
			cur.bad = true
		}
	}
	results := make([][]string, len(cases))
	var wg sync.WaitGroup
	for i, c := range cases {
		wg.Add(1)
		go func(i int, c *sysCase) {
			defer wg.Done()
			results[i] = runOne(c)
		}(i, c)
	}
	wg.Wait()
	for _, r := range results {
		for _, l := range r {
			out.WriteString(l)
			out.WriteByte('\n')
		}
	}
}
