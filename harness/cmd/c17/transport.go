package main

import (
	. "hopverif/hvlib"
)

func genTransport(g *GenCtx, emit func(head string, gos [][]string)) {}
func prepareTransport()                                               {}
func (lc *linCase) runTransport()                                     {}
