package main

import (
	"crypto/rand"
	"encoding/binary"
	"fmt"
	"net"
	"os"
	"strconv"
	"strings"
	"sync"
	"time"

	"hop.computer/hop/certs"
	"hop.computer/hop/keys"
	"hop.computer/hop/transport"
	. "hopverif/hvlib"
)

// ---------------------------------------------------------------- in-memory UDPLike network

type dgram struct {
	b    []byte
	from *net.UDPAddr
}

type memNet struct {
	mu  sync.Mutex
	eps map[string]*memEP
}

type memEP struct {
	nw     *memNet
	addr   *net.UDPAddr
	peer   *net.UDPAddr
	in     chan dgram
	closed chan struct{}
	once   sync.Once
	mu     sync.Mutex
	rdl    time.Time
	dlCh   chan struct{}
}

func (n *memNet) endpoint(addr, peer *net.UDPAddr) *memEP {
	e := &memEP{nw: n, addr: addr, peer: peer, in: make(chan dgram, 4096), closed: make(chan struct{}), dlCh: make(chan struct{})}
	n.mu.Lock()
	n.eps[addr.String()] = e
	n.mu.Unlock()
	return e
}

func (e *memEP) ReadMsgUDP(b, oob []byte) (int, int, int, *net.UDPAddr, error) {
	for {
		e.mu.Lock()
		dl, ch := e.rdl, e.dlCh
		e.mu.Unlock()
		var tc <-chan time.Time
		var tm *time.Timer
		if !dl.IsZero() {
			d := time.Until(dl)
			if d <= 0 {
				return 0, 0, 0, nil, os.ErrDeadlineExceeded
			}
			tm = time.NewTimer(d)
			tc = tm.C
		}
		stop := func() {
			if tm != nil {
				tm.Stop()
			}
		}
		select {
		case <-e.closed:
			stop()
			return 0, 0, 0, nil, net.ErrClosed
		default:
		}
		select {
		case p := <-e.in:
			stop()
			return copy(b, p.b), 0, 0, p.from, nil
		case <-e.closed:
			stop()
			return 0, 0, 0, nil, net.ErrClosed
		case <-tc:
			return 0, 0, 0, nil, os.ErrDeadlineExceeded
		case <-ch:
			stop()
		}
	}
}

func (e *memEP) WriteMsgUDP(b, oob []byte, addr *net.UDPAddr) (int, int, error) {
	select {
	case <-e.closed:
		return 0, 0, net.ErrClosed
	default:
	}
	if addr == nil {
		addr = e.peer
	}
	if addr == nil {
		return 0, 0, net.ErrClosed
	}
	e.nw.mu.Lock()
	dst := e.nw.eps[addr.String()]
	e.nw.mu.Unlock()
	if dst != nil {
		select {
		case dst.in <- dgram{append([]byte(nil), b...), e.addr}:
		default: // receive buffer full: dropped
		}
	}
	return len(b), 0, nil
}

func (e *memEP) Read(b []byte) (int, error) {
	n, _, _, _, err := e.ReadMsgUDP(b, nil)
	return n, err
}
func (e *memEP) Write(b []byte) (int, error) {
	n, _, err := e.WriteMsgUDP(b, nil, nil)
	return n, err
}
func (e *memEP) Close() error         { e.once.Do(func() { close(e.closed) }); return nil }
func (e *memEP) LocalAddr() net.Addr  { return e.addr }
func (e *memEP) RemoteAddr() net.Addr { return e.peer }
func (e *memEP) SetDeadline(t time.Time) error {
	return e.SetReadDeadline(t)
}
func (e *memEP) SetReadDeadline(t time.Time) error {
	e.mu.Lock()
	e.rdl = t
	close(e.dlCh)
	e.dlCh = make(chan struct{})
	e.mu.Unlock()
	return nil
}
func (e *memEP) SetWriteDeadline(time.Time) error { return nil }

var _ transport.UDPLike = &memEP{}

// ---------------------------------------------------------------- key material (once per process)

var tServerCfg transport.ServerConfig
var tClientCfg transport.ClientConfig
var tReady bool

func prepareTransport() {
	rootKey := keys.GenerateNewSigningKeyPair()
	interKey := keys.GenerateNewSigningKeyPair()
	root, err := certs.SelfSignRoot(&certs.Identity{PublicKey: rootKey.Public, Names: []certs.Name{certs.RawStringName("Root")}}, rootKey)
	if err != nil {
		return
	}
	root.ProvideKey((*[32]byte)(&rootKey.Private))
	inter, err := certs.IssueIntermediate(root, &certs.Identity{PublicKey: interKey.Public, Names: []certs.Name{certs.RawStringName("Intermediate")}})
	if err != nil {
		return
	}
	inter.ProvideKey((*[32]byte)(&interKey.Private))
	skp := keys.GenerateNewX25519KeyPair()
	kem, err := keys.GenerateKEMKeyPair(rand.Reader)
	if err != nil {
		return
	}
	sleaf, err := certs.IssueLeaf(inter, &certs.Identity{PublicKey: skp.Public, Names: []certs.Name{certs.RawStringName("testing")}})
	if err != nil {
		return
	}
	tServerCfg = transport.ServerConfig{KEMKeyPair: kem, KeyPair: skp, Certificate: sleaf, Intermediate: inter, HandshakeTimeout: 5 * time.Second}
	verify := transport.VerifyConfig{Store: certs.Store{}}
	verify.Store.AddCertificate(root)
	verify.Name = certs.RawStringName("testing")
	ckp := keys.GenerateNewX25519KeyPair()
	cleaf, err := certs.IssueLeaf(inter, &certs.Identity{PublicKey: ckp.Public, Names: []certs.Name{certs.RawStringName("testing")}})
	if err != nil {
		return
	}
	tClientCfg = transport.ClientConfig{Exchanger: ckp, Verify: verify, Leaf: cleaf, Intermediate: inter, HSTimeout: 3 * time.Second}
	tReady = true
}

// ---------------------------------------------------------------- generator

func genTransport(g *GenCtx, emit func(head string, gos [][]string)) {
	// fixed shapes: the mechanisms named by the property
	emit("obj=t", [][]string{{"s.acc", "h.rm", "h.rm", "h.rm", "h.rm"}, {"c.hs", "c.wm:1001", "c.wm:1002", "c.wm:1003", "c.c"}, {"sl:300", "s.c"}})
	emit("obj=t", [][]string{{"s.acc", "h.wm:1", "h.wm:2", "h.c", "h.c"}, {"c.hs", "sl:100", "c.c", "c.rm", "c.rm", "c.rm"}, {"sl:400", "s.c"}}) // buffered data after close
	emit("obj=t", [][]string{{"c.hs"}, {"c.hs"}, {"c.hs"}, {"c.c"}, {"s.acc"}, {"sl:300", "s.c"}, {"sl:300", "c.c"}})                            // handshake elected once; close racing with it
	emit("obj=t", [][]string{{"c.c"}, {"c.c"}, {"c.c"}, {"c.hs"}, {"s.c"}, {"s.c"}, {"s.acc"}})                                                  // concurrent closes before anything
	emit("obj=t", [][]string{{"c.rm"}, {"c.r"}, {"s.acc", "h.rm"}, {"sl:200", "c.c"}, {"sl:250", "s.c"}})                                        // close releases blocked reads
	emit("obj=t", [][]string{{"c.hs", "c.ds", "c.rm", "c.dz"}, {"s.acc", "h.ds", "h.rm", "h.dp", "h.rm"}, {"sl:300", "c.c"}, {"sl:300", "s.c"}}) // deadlines release blocked reads
	emit("obj=t", [][]string{{"s.c"}, {"c.hs"}, {"sl:3500", "c.c"}})                                                                             // dead server: handshake timeout
	// a handshake that fails (dead server, short handshake timeout) while Close / Read / Handshake run
	for _, d := range []int{36, 37, 38, 39, 40, 40, 41, 41, 42, 43, 44, 46} {
		emit("obj=t hst=40", [][]string{{"s.c"}, {"c.hs"}, {"sl:20", "c.rm"}, {fmt.Sprintf("sl:%d", d), "c.c"}, {fmt.Sprintf("sl:%d", d+1), "c.rm"}, {fmt.Sprintf("sl:%d", d+2), "c.hs", "c.c"}})
	}
	// Close right after the handshake while readers wait and a message from the peer is already queued
	for k := 0; k < 4; k++ {
		emit("obj=t", [][]string{{"s.acc", "h.wm:2001"}, {"c.hs", "c.c"}, {"c.rm"}, {"c.r"}, {"sl:100", "c.rm", "c.rm"}, {"sl:300", "s.c"}})
	}
	// one batch: Close is elected while a handshake is under way and then lingers (yclose) until the
	// handshake has exchanged all its packets; whatever the handshake left behind, every Read after that
	// Close returns
	for k := 0; k < linBatch; k++ {
		emit("obj=t yclose=40", [][]string{{"s.acc"}, {"c.hs"}, {fmt.Sprintf("sl:%d", k%4), "c.c", "c.rm", "c.r", "c.hs"}, {"sl:200", "c.rm"},
			{"sl:600", "c.c"}, {"sl:600", "s.c"}})
	}
	n := 110
	if g.Thorough() {
		n = 2500 / g.Parts
	}
	if raceTier {
		n /= 2
	}
	for c := 0; c < n; c++ {
		var gos [][]string
		ng := 2 + g.R.Intn(4)
		// one goroutine accepts, so that handle operations have an object
		gos = append(gos, []string{"s.acc"})
		for k := 0; k < ng; k++ {
			who := Pick(g.R, []string{"c", "c", "h"})
			var l []string
			nops := 1 + g.R.Intn(4)
			wk := 0
			for j := 0; j < nops; j++ {
				switch x := g.R.Intn(100); {
				case x < 10:
					l = append(l, "c.hs")
				case x < 34:
					wk++
					l = append(l, fmt.Sprintf("%s.%s:%d", who, Pick(g.R, []string{"wm", "w"}), (k+1)*1000+wk))
				case x < 62:
					l = append(l, who+"."+Pick(g.R, []string{"rm", "r"}))
				case x < 72:
					l = append(l, who+".c")
				case x < 78:
					l = append(l, who+".dp")
				case x < 86:
					l = append(l, who+".dz")
				case x < 92:
					l = append(l, who+".ds")
				case x < 95:
					l = append(l, "s.c")
				default:
					l = append(l, fmt.Sprintf("sl:%d", 1+g.R.Intn(20)))
				}
			}
			gos = append(gos, l)
		}
		gos = append(gos, []string{fmt.Sprintf("sl:%d", Pick(g.R, []int{0, 5, 40, 150, 400})), "c.c"})
		gos = append(gos, []string{fmt.Sprintf("sl:%d", Pick(g.R, []int{0, 5, 40, 150, 400})), "s.c"})
		emit("obj=t", gos)
	}
}

// ---------------------------------------------------------------- running a transport program

type tConn interface {
	Read([]byte) (int, error)
	ReadMsg([]byte) (int, error)
	Write([]byte) (int, error)
	WriteMsg([]byte) error
	SetDeadline(time.Time) error
	Close() error
}

func payload(id int) []byte {
	b := make([]byte, 16)
	copy(b, "hopverif")
	binary.BigEndian.PutUint64(b[8:], uint64(id))
	return b
}

func readRes(b []byte, n int, err error) string {
	if err != nil {
		return errName(err)
	}
	if n == 16 && string(b[:8]) == "hopverif" {
		return fmt.Sprintf("val %d", binary.BigEndian.Uint64(b[8:16]))
	}
	return fmt.Sprintf("junk %d", n)
}

func (lc *linCase) runTransport() {
	if !tReady {
		lc.info = append(lc.info, "info key material could not be generated")
		return
	}
	id, _ := strconv.Atoi(strings.Fields(lc.header)[1])
	nw := &memNet{eps: map[string]*memEP{}}
	sAddr := &net.UDPAddr{IP: net.IPv4(10, 1, 0, 1), Port: 7000}
	cAddr := &net.UDPAddr{IP: net.IPv4(10, 1, 0, 2), Port: 8000 + id%50000}
	sEP := nw.endpoint(sAddr, nil)
	cEP := nw.endpoint(cAddr, sAddr)
	server, err := transport.NewServer(sEP, tServerCfg)
	if err != nil {
		lc.info = append(lc.info, "info NewServer failed")
		return
	}
	ccfg := tClientCfg
	if ms, err := strconv.Atoi(lc.kv["hst"]); err == nil && ms > 0 {
		ccfg.HSTimeout = time.Duration(ms) * time.Millisecond
	}
	client := transport.NewClient(cEP, sAddr, ccfg)

	var handle *transport.Handle
	hReady := make(chan struct{})
	var hOnce sync.Once
	sClosed := make(chan struct{})
	var sOnce sync.Once

	var wg sync.WaitGroup
	// Serve is part of the program: it must return once the server is closed
	wg.Add(1)
	go func() {
		defer wg.Done()
		lc.record(99, "s.serve", func() string { return errName(server.Serve()) })
	}()
	for gi, gl := range lc.gos {
		wg.Add(1)
		go func(gi int, gl []string) {
			defer wg.Done()
			for _, op := range gl {
				if strings.HasPrefix(op, "sl:") {
					ms, _ := strconv.Atoi(op[3:])
					time.Sleep(time.Duration(ms) * time.Millisecond)
					continue
				}
				who, rest, ok := strings.Cut(op, ".")
				if !ok {
					continue
				}
				kind, arg, _ := strings.Cut(rest, ":")
				var f func() string
				var conn tConn
				switch who {
				case "s":
					switch kind {
					case "acc":
						f = func() string {
							h, err := server.Accept()
							if err == nil && h != nil {
								hOnce.Do(func() { handle = h; close(hReady) })
							}
							return errName(err)
						}
					case "c":
						f = func() string {
							r := errName(server.Close())
							sOnce.Do(func() { close(sClosed) })
							return r
						}
					}
				case "c":
					conn = client
				case "h":
					// operations on the handle need one: wait for Accept, give up when the server is closed
					select {
					case <-hReady:
						conn = handle
					case <-sClosed:
						select {
						case <-hReady:
							conn = handle
						default:
						}
					case <-time.After(watchdog): // a program without a server close (never generated)
					}
					if conn == nil {
						continue
					}
				}
				if conn != nil {
					c := conn
					switch kind {
					case "hs":
						if who == "c" {
							f = func() string { return errName(client.Handshake()) }
						}
					case "w":
						v, _ := strconv.Atoi(arg)
						f = func() string { _, err := c.Write(payload(v)); return errName(err) }
					case "wm":
						v, _ := strconv.Atoi(arg)
						f = func() string { return errName(c.WriteMsg(payload(v))) }
					case "r":
						f = func() string { b := make([]byte, 64); n, err := c.Read(b); return readRes(b, n, err) }
					case "rm":
						f = func() string { b := make([]byte, 64); n, err := c.ReadMsg(b); return readRes(b, n, err) }
					case "dp":
						f = func() string { return errName(c.SetDeadline(time.Now().Add(-time.Hour))) }
					case "dz":
						f = func() string { return errName(c.SetDeadline(time.Time{})) }
					case "ds":
						f = func() string { return errName(c.SetDeadline(time.Now().Add(3 * time.Millisecond))) }
					case "c":
						f = func() string { return errName(c.Close()) }
					}
				}
				if f == nil {
					continue
				}
				if !lc.record(gi, op, f) {
					return
				}
			}
		}(gi, gl)
	}
	wg.Wait()
	// whatever the program did: close both ends (idempotent) so that nothing outlives the case
	go client.Close()
	go server.Close()
}
