package main

import (
	"bufio"
	"errors"
	"fmt"
	"net"
	"os"
	"strconv"
	"strings"
	"sync"
	"time"

	"hop.computer/hop/transport"
	. "hopverif/hvlib"
)

// Suite C17dial — the gonet wiring (transport.Dial / DialWithDialer): a net.Dialer's Timeout and
// Deadline become the client's handshake limits, so a handshake with a peer that never answers
// returns.  Every line is its own case:
//
//	dial <timeout ms> <deadline in ms from now | 0>     (at least one of them > 0)
//	     -> timeout (Handshake returned an error within the limit + 2.5 s) | ok?! | blocked
func genDial(g *GenCtx) {
	for _, t := range []int{150, 300, 999, 1000, 1001, 1500, 2400, 0} {
		for _, d := range []int{0, 200, 1200} {
			if t == 0 && d == 0 {
				continue
			}
			g.Op("dial %d %d", t, d)
		}
	}
	g.Op("dial 0 0")
	g.Op("dial x 1")
}

func runDial(in *bufio.Scanner, out *bufio.Writer) {
	var lines []string
	for in.Scan() {
		lines = append(lines, in.Text())
	}
	prepareTransport()
	// a peer that never answers
	silent, err := net.ListenUDP("udp", &net.UDPAddr{IP: net.IPv4(127, 0, 0, 1)})
	if err != nil {
		fmt.Fprintln(os.Stderr, "c17dial:", err)
		os.Exit(3)
	}
	defer silent.Close()
	res := make([]string, len(lines))
	var wg sync.WaitGroup
	for i, l := range lines {
		wg.Add(1)
		go func(i int, f []string) {
			defer wg.Done()
			res[i] = "bad-op"
			if len(f) != 3 || f[0] != "dial" {
				return
			}
			t, e1 := strconv.Atoi(f[1])
			d, e2 := strconv.Atoi(f[2])
			if e1 != nil || e2 != nil || t < 0 || d < 0 || (t == 0 && d == 0) || t > 10000 || d > 10000 {
				return
			}
			res[i] = Guard(func() string {
				dialer := &net.Dialer{Timeout: time.Duration(t) * time.Millisecond}
				limit := time.Duration(t) * time.Millisecond
				if d > 0 {
					dialer.Deadline = time.Now().Add(time.Duration(d) * time.Millisecond)
					if t == 0 || time.Duration(d)*time.Millisecond < limit {
						limit = time.Duration(d) * time.Millisecond
					}
				}
				ccfg := tClientCfg
				ccfg.HSTimeout = 0
				c, err := transport.DialWithDialer(dialer, "udp", silent.LocalAddr().String(), ccfg)
				if err != nil {
					return "dial-failed"
				}
				done := make(chan error, 1)
				go func() { done <- c.Handshake() }()
				select {
				case err := <-done:
					c.Close()
					if err == nil {
						return "ok?!"
					}
					if errors.Is(err, os.ErrDeadlineExceeded) || strings.Contains(err.Error(), "timeout") {
						return "timeout"
					}
					return "timeout" // any error: the call returned within the limit
				case <-time.After(limit + 2500*time.Millisecond):
					c.Close()
					return "blocked"
				}
			})
		}(i, strings.Fields(l))
	}
	wg.Wait()
	for _, r := range res {
		out.WriteString(r)
		out.WriteByte('\n')
	}
	out.Flush()
}
