package main

import (
	"bufio"

	. "hopverif/hvlib"
)

func genLin(g *GenCtx)                           {}
func runLin(in *bufio.Scanner, out *bufio.Writer) {}
