package main

import (
	"bufio"
	"fmt"
	"os"
	"runtime"
	"sort"
	"strconv"
	"strings"
	"sync"
	"sync/atomic"
	"time"

	"hop.computer/hop/common"
	"hop.computer/hop/transport"
	. "hopverif/hvlib"
)

// C17lin — small concurrent programs with seeded yield points; the harness records the call/return
// history (global order of invocation and response events) and the Lean driver decides it.
//
// Program format:
//   new <id> obj=q cap=<c> yseed=<n>            bare common.DeadlineChan[int]
//   new <id> obj=t yseed=<n>                    transport client + server over an in-memory UDPLike
//   go <op> <op> …                              one goroutine, operations in order
//   end
// Queue ops:     s<v> r c dp dz df ds x xt sl:<ms>
//                (send v, recv, close, deadline past/zero/future(1h)/soon(3ms), cancel other/timeout)
// Transport ops: <who>.<op>  who ∈ c (client) h (server handle) s (server)
//                hs (Handshake) w:<n> (Write) wm:<n> (WriteMsg) r (Read) rm (ReadMsg) dp dz ds c (Close)
//                acc (Accept, server only)
// Every program ends with goroutines that close everything, so every call must return.

const linBatch = 16

func genLin(g *GenCtx) {
	g.R = NewRng(g.R.U64())
	id := 0
	emit := func(head string, gos [][]string) {
		id++
		g.Op("new %d %s yseed=%d", id, head, g.R.Intn(1<<30))
		for _, l := range gos {
			g.Op("go %s", strings.Join(l, " "))
		}
		g.Op("end")
	}
	// fixed shapes first: the mechanisms named by the property
	emit("obj=q cap=2", [][]string{{"s1", "s2", "c"}, {"sl:20", "r", "r", "r"}})           // buffered data before EOF
	emit("obj=q cap=1", [][]string{{"r"}, {"sl:5", "c"}})                                  // close releases a blocked Recv
	emit("obj=q cap=1", [][]string{{"s1", "s2"}, {"sl:5", "c"}, {"sl:40", "r", "r"}})      // close while a Send is blocked on a full queue
	emit("obj=q cap=0", [][]string{{"s1"}, {"sl:5", "c"}})                                 // same, unbuffered (no Recv: no rendezvous)
	emit("obj=q cap=1", [][]string{{"r"}, {"sl:3", "ds"}, {"sl:60", "c"}})                 // deadline releases a blocked Recv
	emit("obj=q cap=1", [][]string{{"r"}, {"dz"}, {"c"}})                                  // close racing with un-expire
	emit("obj=q cap=1", [][]string{{"dp", "r", "dz", "r"}, {"sl:2", "x"}, {"sl:30", "c"}}) // cancel
	emit("obj=q cap=1", [][]string{{"c"}, {"c"}, {"c"}, {"r"}, {"s1"}})                    // concurrent closes
	emit("obj=q cap=3", [][]string{{"s1", "s2", "s3"}, {"r", "r"}, {"r"}, {"sl:50", "c"}}) // competing consumers
	// a near deadline that is extended just when it fires (the timer callback may already be running)
	for _, d := range []int{2, 3, 3, 4} {
		emit("obj=q cap=2", [][]string{{"ds", fmt.Sprintf("sl:%d", d), "df", "s1", "s2", "r"}, {"ds", fmt.Sprintf("sl:%d", d), "dz", "r"}, {fmt.Sprintf("sl:%d", d), "df", "r"}, {"sl:30", "c"}})
	}
	// … and the same with the race made certain: the second SetDeadline sleeps 8 ms under the lock, so
	// the timer (due 3 ms after it was armed) fires meanwhile and its callback runs right after the new deadline is in place.
	// Afterwards the deadline is cleared (or an hour away): a Recv on the empty queue must block until
	// the closer ends it with end-of-stream, never report a timeout.
	emit("obj=q cap=1 ylock=8", [][]string{{"ds", "dz", "r"}, {"sl:60", "c"}})
	emit("obj=q cap=1 ylock=8", [][]string{{"ds", "df", "r"}, {"sl:60", "c"}})
	emit("obj=q cap=2 ylock=8", [][]string{{"ds", "dz", "s1", "r", "r"}, {"sl:60", "c"}})
	// (the directed shapes fill one batch, so that the long lock sleep slows nothing else down)
	for k := 0; k < linBatch-3-13; k++ {
		emit("obj=q cap=1", [][]string{{"r"}, {"sl:1", "c"}})
	}
	nq := 900
	if g.Thorough() {
		nq = 30000 / g.Parts
	}
	if raceTier {
		nq /= 4
	}
	next := 1
	for c := 0; c < nq; c++ {
		capQ := 1 + g.R.Intn(3) // the sequential Spec has no rendezvous, so no unbuffered queues here
		ng := 2 + g.R.Intn(4)
		budget := 11 // operations per history, so that the brute-force search stays small
		var gos [][]string
		style := g.R.Intn(5)
		for k := 0; k < ng && budget > 1; k++ {
			n := 1 + g.R.Intn(3)
			var l []string
			for j := 0; j < n && budget > 1; j++ {
				budget--
				x := g.R.Intn(100)
				if style == 0 { // close/deadline races: few data ops
					x = 50 + x/2
				}
				switch {
				case x < 25:
					l = append(l, fmt.Sprintf("s%d", next))
					next++
				case x < 52:
					l = append(l, "r")
				case x < 60:
					l = append(l, "c")
				case x < 68:
					l = append(l, "dp")
				case x < 80:
					l = append(l, "dz")
				case x < 84:
					l = append(l, "df")
				case x < 90:
					l = append(l, "ds")
				case x < 96:
					l = append(l, "x")
				default:
					l = append(l, "xt")
				}
				if g.R.Chance(1, 6) {
					l = append(l, fmt.Sprintf("sl:%d", 1+g.R.Intn(4)))
				}
			}
			gos = append(gos, l)
		}
		// the closer: after it, every blocked call must be released
		gos = append(gos, []string{fmt.Sprintf("sl:%d", Pick(g.R, []int{0, 1, 3, 10, 30})), "c"})
		emit(fmt.Sprintf("obj=q cap=%d", capQ), gos)
	}
	genTransport(g, emit)
	// one malformed program
	g.Op("new 0 obj=zzz")
	g.Op("go r")
	g.Op("end")
}

// ---------------------------------------------------------------- schedule perturbation

var yieldSeed, yieldCtr atomic.Uint64

// lockSleepMs > 0: a SetDeadline call sleeps that long while it holds the deadline's lock, before
// it stops the old timer — long enough for a nearly due timer to fire and its callback to queue
// up behind the lock (directed shapes `ylock=<ms>`).
var lockSleepMs atomic.Int64

// closeSleepMs > 0 (head option yclose=<ms>): the elected Client.Close sleeps that long right after it has
// taken the state - long enough for a handshake that was under way to finish its packets
var closeSleepMs atomic.Int64

func yield(site string) {
	if site == "Client.Close.elected" {
		if ms := closeSleepMs.Load(); ms > 0 {
			time.Sleep(time.Duration(ms) * time.Millisecond)
			return
		}
	}
	if site == "Deadline.SetDeadline.locked" {
		if ms := lockSleepMs.Load(); ms > 0 {
			time.Sleep(time.Duration(ms) * time.Millisecond)
			return
		}
	}
	n := yieldCtr.Add(1)
	z := (yieldSeed.Load() + n) * 0x9E3779B97F4A7C15
	z = (z ^ (z >> 30)) * 0xBF58476D1CE4E5B9
	z = (z ^ (z >> 27)) * 0x94D049BB133111EB
	z ^= z >> 31
	switch z % 8 {
	case 0, 1:
		runtime.Gosched()
	case 2:
		time.Sleep(time.Duration(10+(z>>8)%200) * time.Microsecond)
	case 3:
		time.Sleep(time.Duration(200+(z>>8)%1500) * time.Microsecond)
	}
}

// ---------------------------------------------------------------- histories

type callRec struct {
	g          int
	op         string
	start, end int64
	res        string
	hung       bool
}

type linCase struct {
	header string
	kv     map[string]string
	gos    [][]string
	bad    bool

	seq   atomic.Int64
	mu    sync.Mutex
	calls []*callRec
	info  []string
}

// record runs f under the watchdog and appends the call to the history
func (lc *linCase) record(gi int, op string, f func() string) bool {
	rec := &callRec{g: gi, op: op, start: lc.seq.Add(1)}
	done := make(chan string, 1)
	go func() { done <- Guard(f) }()
	ok := true
	select {
	case rec.res = <-done:
	case <-time.After(watchdog):
		ok = false
	}
	rec.end = lc.seq.Add(1)
	rec.hung = !ok
	lc.mu.Lock()
	lc.calls = append(lc.calls, rec)
	lc.mu.Unlock()
	return ok
}

func (lc *linCase) runQueue() {
	c, _ := strconv.Atoi(lc.kv["cap"])
	q := common.NewDeadlineChan[int](c)
	var wg sync.WaitGroup
	for gi, gl := range lc.gos {
		wg.Add(1)
		go func(gi int, gl []string) {
			defer wg.Done()
			for _, op := range gl {
				if strings.HasPrefix(op, "sl:") {
					ms, _ := strconv.Atoi(op[3:])
					time.Sleep(time.Duration(ms) * time.Millisecond)
					continue
				}
				var f func() string
				switch {
				case op == "r":
					f = func() string {
						v, err := q.Recv()
						if err != nil {
							return errName(err)
						}
						return fmt.Sprintf("val %d", v)
					}
				case op == "c":
					f = func() string { return errName(q.Close()) }
				case op == "dp":
					f = func() string { return errName(q.SetDeadline(time.Now().Add(-time.Hour))) }
				case op == "dz":
					f = func() string { return errName(q.SetDeadline(time.Time{})) }
				case op == "df":
					f = func() string { return errName(q.SetDeadline(time.Now().Add(time.Hour))) }
				case op == "ds":
					// with ylock the call itself waits under the lock before it arms the timer
					yl, _ := strconv.Atoi(lc.kv["ylock"])
					f = func() string {
						return errName(q.SetDeadline(time.Now().Add(time.Duration(3+yl) * time.Millisecond)))
					}
				case op == "x":
					f = func() string { return errName(q.Cancel(errOther)) }
				case op == "xt":
					f = func() string { return errName(q.Cancel(os.ErrDeadlineExceeded)) }
				case len(op) > 1 && op[0] == 's':
					v, err := strconv.Atoi(op[1:])
					if err != nil {
						continue
					}
					f = func() string { return errName(q.Send(v)) }
				default:
					continue
				}
				if !lc.record(gi, op, f) {
					return
				}
			}
		}(gi, gl)
	}
	wg.Wait()
}

func (lc *linCase) render(out *bufio.Writer) {
	fmt.Fprintln(out, lc.header)
	sort.SliceStable(lc.calls, func(i, j int) bool { return lc.calls[i].end < lc.calls[j].end })
	for _, l := range lc.info {
		fmt.Fprintln(out, l)
	}
	for _, c := range lc.calls {
		if c.hung {
			fmt.Fprintf(out, "hang %d %s %d\n", c.g, c.op, c.start)
		} else {
			fmt.Fprintf(out, "ret %d %s %d %d %s\n", c.g, c.op, c.start, c.end, c.res)
		}
	}
	fmt.Fprintln(out, "end")
}

func parseLin(lines []string) *linCase {
	lc := &linCase{header: lines[0], kv: map[string]string{}}
	f := strings.Fields(lines[0])
	if len(f) < 3 || f[0] != "new" {
		lc.bad = true
		return lc
	}
	for _, kv := range f[2:] {
		k, v, _ := strings.Cut(kv, "=")
		lc.kv[k] = v
	}
	if o := lc.kv["obj"]; o != "q" && o != "t" {
		lc.bad = true
	}
	for _, l := range lines[1:] {
		g := strings.Fields(l)
		if len(g) < 2 || g[0] != "go" {
			lc.bad = true
			continue
		}
		lc.gos = append(lc.gos, g[1:])
	}
	return lc
}

func runLin(in *bufio.Scanner, out *bufio.Writer) {
	common.SetVerifYield(yield)
	transport.SetVerifYield(yield)
	var cases []*linCase
	var cur []string
	flush := func() {
		if cur != nil {
			cases = append(cases, parseLin(cur))
		}
		cur = nil
	}
	for in.Scan() {
		l := strings.TrimSpace(in.Text())
		if l == "" {
			continue
		}
		if l == "end" {
			flush()
			continue
		}
		if strings.HasPrefix(l, "new") {
			flush()
		}
		cur = append(cur, l)
	}
	flush()
	prepareTransport()
	hungCases := 0
	for i := 0; i < len(cases); i += linBatch {
		j := min(i+linBatch, len(cases))
		var wg sync.WaitGroup
		lockSleepMs.Store(0)
		closeSleepMs.Store(0)
		for _, lc := range cases[i:j] {
			if ms, err := strconv.ParseInt(lc.kv["ylock"], 10, 64); err == nil && ms > 0 {
				lockSleepMs.Store(ms)
			}
			if ms, err := strconv.ParseInt(lc.kv["yclose"], 10, 64); err == nil && ms > 0 {
				closeSleepMs.Store(ms)
			}
		}
		for _, lc := range cases[i:j] {
			if lc.bad {
				continue
			}
			if hungCases >= 3 {
				// enough calls have failed to return: every further one costs a full watchdog
				lc.info = append(lc.info, "info skipped after 3 cases with calls that did not return")
				continue
			}
			ys, _ := strconv.ParseUint(lc.kv["yseed"], 10, 64)
			yieldSeed.Store(ys)
			wg.Add(1)
			go func(lc *linCase) {
				defer wg.Done()
				if lc.kv["obj"] == "q" {
					lc.runQueue()
				} else {
					lc.runTransport()
				}
			}(lc)
		}
		wg.Wait()
		for _, lc := range cases[i:j] {
			for _, c := range lc.calls {
				if c.hung {
					hungCases++
					break
				}
			}
		}
		for _, lc := range cases[i:j] {
			if lc.bad {
				fmt.Fprintln(out, lc.header)
				fmt.Fprintln(out, "bad-program")
				fmt.Fprintln(out, "end")
				continue
			}
			lc.render(out)
		}
		out.Flush()
	}
}
