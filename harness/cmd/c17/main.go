package main

import (
	"bufio"
	"errors"
	"fmt"
	"io"
	"os"
	"strconv"
	"strings"
	"time"

	"hop.computer/hop/common"
	. "hopverif/hvlib"
)

// C17 — deadline queues and transport connections under concurrent use.
//
//	C17q    sequential operation sequences on a real common.DeadlineChan[int] vs QSpec (exact)
//	C17lin  small concurrent programs; recorded call/return histories are judged by the Lean driver
//	        (linearizability against QSpec for the bare queue; necessary conditions for transport)

func main() {
	Main(map[string]*Suite{
		"C17q":   {Gen: genQ, Run: runQ},
		"C17lin": {Gen: genLin, Run: runLin},
		// the same programs, fewer of them, for the harness binary built with -race
		"C17race": {Gen: func(g *GenCtx) { raceTier = true; genLin(g) }, Run: runLin},
		"C17dial": {Gen: genDial, Run: runDial},
	})
}

var errOther = errors.New("verif: other error")

// raceTier shrinks the generated campaign (the race detector slows everything down)
var raceTier bool

// watchdog for a call that must return; generous so that a loaded machine cannot trip it
const watchdog = 25 * time.Second

func errName(err error) string {
	switch {
	case err == nil:
		return "ok"
	case errors.Is(err, io.EOF):
		return "eof"
	case errors.Is(err, os.ErrDeadlineExceeded):
		return "timeout"
	case errors.Is(err, errOther):
		return "other"
	}
	return "err"
}

// ---------------------------------------------------------------- C17q

func genQ(g *GenCtx) {
	// hvlib's streams for neighbouring seeds are shifted copies of one another and re-synchronise;
	// re-seed from the first draw so that different seeds give unrelated programs
	g.R = NewRng(g.R.U64())
	// fixed cases around the proof's case splits first
	fixed := [][]string{
		{"new 2", "send 1", "send 2", "send 3", "close", "recv", "recv", "recv", "close", "send 4"},
		{"new 1", "set past", "recv", "send 5", "set zero", "send 5", "set past", "recv", "recv"},
		{"new 1", "recv", "send 1", "recv", "recv"},
		{"new 0", "send 1", "recv", "close", "send 1", "recv"},
		{"new 1", "fire", "recv", "set future", "send 9", "fire", "recv", "recv"},
		{"new 2", "cancel other", "recv", "cancel timeout", "send 1", "set zero", "send 1", "cancel eof", "recv", "recv"},
		{"new 2", "send 1", "close", "set past", "cancel other", "fire", "recv", "recv", "close"},
		{"new 1", "set future", "cancel other", "set future", "recv", "close", "recv"},
	}
	for _, c := range fixed {
		for _, l := range c {
			g.Op("%s", l)
		}
	}
	// malformed stream
	for _, l := range []string{"new 1", "send", "send x", "recv 1", "set never", "cancel", "cancel nil", "bogus", "new", "new -1", "fire 1", "recv"} {
		g.Op("%s", l)
	}
	n := 1500
	if g.Thorough() {
		n = 40000 / g.Parts
	}
	next := 1
	for c := 0; c < n; c++ {
		capQ := g.R.Intn(4)
		if g.R.Chance(1, 10) {
			capQ = 4 + g.R.Intn(5)
		}
		g.Op("new %d", capQ)
		steps := 4 + g.R.Intn(22)
		// blocking operations cost ~30 ms each on the implementation side; the mode decides how
		// likely the sequence is to walk into them
		mode := g.R.Intn(4)
		for i := 0; i < steps; i++ {
			k := g.R.Intn(100)
			switch {
			case k < 28:
				g.Op("send %d", next)
				next++
			case k < 56:
				g.Op("recv")
			case k < 62:
				if mode != 3 && i < 2*steps/3 {
					g.Op("send %d", next)
					next++
				} else {
					g.Op("close")
				}
			case k < 72:
				g.Op("set past")
			case k < 78:
				g.Op("set future")
			case k < 84:
				g.Op("set zero")
			case k < 92:
				g.Op("cancel %s", Pick(g.R, []string{"timeout", "other", "other", "eof"}))
			case k < 96:
				g.Op("fire")
			default:
				// fill or drain
				if g.R.Chance(1, 2) {
					for j := 0; j <= capQ; j++ {
						g.Op("send %d", next)
						next++
					}
				} else {
					for j := 0; j <= capQ; j++ {
						g.Op("recv")
					}
				}
			}
		}
		// always end by closing and draining: the drain-before-EOF observable
		g.Op("close")
		for j := 0; j <= capQ; j++ {
			g.Op("recv")
		}
	}
}

type qObj struct {
	q *common.DeadlineChan[int]
}

// callMaybeBlocking runs f on its own goroutine.  If the pre-check (from the queue's own state)
// says the call cannot block, only the generous watchdog applies.  If it says the call blocks,
// the call is given a moment to (wrongly) return, then released with Cancel(errOther); it must
// then return that error, which is reported as `block`.
func (o *qObj) callMaybeBlocking(f func() string, expectBlock bool) string {
	done := make(chan string, 1)
	go func() { done <- Guard(f) }()
	if !expectBlock {
		select {
		case r := <-done:
			return r
		case <-time.After(watchdog):
			return "hang"
		}
	}
	select {
	case r := <-done:
		return r
	case <-time.After(3 * time.Millisecond):
	}
	o.q.Cancel(errOther)
	select {
	case r := <-done:
		if r == "other" {
			return "block"
		}
		return "block-then-" + r
	case <-time.After(watchdog):
		return "hang"
	}
}

func runQ(in *bufio.Scanner, out *bufio.Writer) {
	var o *qObj
	for in.Scan() {
		f := strings.Fields(in.Text())
		fmt.Fprintln(out, qOp(&o, f))
	}
}

func qOp(po **qObj, f []string) string {
	if len(f) == 2 && f[0] == "new" {
		c, err := strconv.ParseUint(f[1], 10, 16)
		if err != nil {
			return "bad-op"
		}
		*po = &qObj{q: common.NewDeadlineChan[int](int(c))}
		return "ok"
	}
	o := *po
	if o == nil || len(f) == 0 {
		return "bad-op"
	}
	q := o.q
	switch {
	case f[0] == "send" && len(f) == 2:
		v, err := strconv.ParseUint(f[1], 10, 31)
		if err != nil {
			return "bad-op"
		}
		closed, expired := q.VerifState()
		block := !closed && !expired && len(q.C) == cap(q.C)
		return o.callMaybeBlocking(func() string { return errName(q.Send(int(v))) }, block)
	case f[0] == "recv" && len(f) == 1:
		closed, expired := q.VerifState()
		block := !closed && !expired && len(q.C) == 0
		return o.callMaybeBlocking(func() string {
			v, err := q.Recv()
			if err != nil {
				return errName(err)
			}
			return fmt.Sprintf("val %d", v)
		}, block)
	case f[0] == "close" && len(f) == 1:
		return o.callMaybeBlocking(func() string { return errName(q.Close()) }, false)
	case f[0] == "set" && len(f) == 2:
		var t time.Time
		switch f[1] {
		case "past":
			t = time.Now().Add(-time.Hour)
		case "future":
			t = time.Now().Add(time.Hour)
		case "zero":
		default:
			return "bad-op"
		}
		return o.callMaybeBlocking(func() string { return errName(q.SetDeadline(t)) }, false)
	case f[0] == "cancel" && len(f) == 2:
		var e error
		switch f[1] {
		case "timeout":
			e = os.ErrDeadlineExceeded
		case "other":
			e = errOther
		case "eof":
			e = io.EOF
		default:
			return "bad-op"
		}
		return o.callMaybeBlocking(func() string { return errName(q.Cancel(e)) }, false)
	case f[0] == "fire" && len(f) == 1:
		return o.callMaybeBlocking(func() string {
			r := errName(q.SetDeadline(time.Now().Add(time.Millisecond)))
			if r != "ok" {
				return r
			}
			for {
				if _, expired := q.VerifState(); expired {
					return "ok"
				}
				time.Sleep(200 * time.Microsecond)
			}
		}, false)
	}
	return "bad-op"
}
