package main

import (
	"bufio"
	"strconv"
	"strings"

	"hop.computer/hop/transport"
	. "hopverif/hvlib"
	"hopverif/sess"
)

// C14 — replay filter.  Histories are built around the case split of the proof: steps inside a
// block, +-1 at block edges, jumps of 64k+{0,1,63}, jumps beyond the ring, revisits of the lower
// window edge; after every step the whole neighbourhood [wt-460, wt+70) is probed.

// "C03" is the session suite (harness/sess): the filter as the receive path uses it — Check before
// authentication, Mark only after it.
func main() { Main(map[string]*Suite{"C14": {Gen: genC14, Run: runC14}, "C03": sess.New("mixed")}) }

func genC14(g *GenCtx) {
	probe := func(top uint64) {
		lo := uint64(0)
		if top > 460 {
			lo = top - 460
		}
		g.Op("probe %d %d", lo, 530)
	}
	// corpus-like fixed cases first
	g.Op("new")
	for _, q := range []uint64{0, 63, 64, 5, 5, 1000, 552, 551, 1000} {
		g.Op("acc %d", q)
	}
	probe(1000)

	if g.Thorough() {
		// exhaustive family: start offset x first jump x second jump, fully probed
		seconds := []uint64{0, 1, 63, 64, 449, 513}
		idx := 0
		for off := uint64(0); off < 64; off++ {
			for jump := uint64(0); jump < 704; jump++ {
				idx++
				if idx%g.Parts != g.Part {
					continue
				}
				for _, s2 := range seconds {
					base := 4096 + off
					g.Op("new")
					g.Op("acc %d", base)
					g.Op("acc %d", base-1)
					g.Op("acc %d", base+jump)
					probe(base + jump)
					if jump >= 448 {
						g.Op("acc %d", base+jump-448)
						g.Op("acc %d", base+jump-449)
					}
					g.Op("acc %d", base+jump+s2)
					probe(base + jump + s2)
				}
			}
		}
	}
	n, steps := 3000, 30
	if g.Thorough() {
		n, steps = 20000/g.Parts, 200
	}
	for c := 0; c < n; c++ {
		g.Op("new")
		var top uint64
		big := g.R.Chance(1, 10)
		if big {
			top = (uint64(1) << 63) - 1 - uint64(g.R.Intn(100000)) - 70000
		} else if g.R.Chance(1, 2) {
			top = uint64(g.R.Intn(600))
		} else {
			top = uint64(g.R.Intn(1 << 20))
		}
		g.Op("acc %d", top)
		for i := 0; i < steps; i++ {
			var q uint64
			switch g.R.Intn(12) {
			case 0: // in-block step forward
				q = top + uint64(g.R.Intn(4))
			case 1: // block edge
				q = (top | 63) + uint64(g.R.Intn(3)) - 1
			case 2: // 64k + {0,1,63}
				q = top + 64*uint64(g.R.Intn(11)) + Pick(g.R, []uint64{0, 1, 63})
			case 3: // beyond the ring
				q = top + 512 + uint64(g.R.Intn(2000))
			case 4: // lower window edge
				e := Pick(g.R, []uint64{447, 448, 449, 450, 511, 512, 513})
				if top >= e {
					q = top - e
				}
			case 5, 6, 7: // somewhere in the window
				d := uint64(g.R.Intn(460))
				if top >= d {
					q = top - d
				}
			case 8: // repeat the top
				q = top
			case 9: // exactly a ring multiple below/above (same cell)
				if g.R.Chance(1, 2) && top >= 512 {
					q = top - 512
				} else {
					q = top + 512
				}
			default:
				q = top + uint64(g.R.Intn(130))
			}
			if g.R.Chance(1, 25) {
				g.Op("mark %d", q)
			} else {
				g.Op("acc %d", q)
			}
			if q > top {
				top = q // an upper bound on wt is all the probe needs
			}
			if g.R.Chance(1, 3) || i == steps-1 {
				probe(top)
			}
		}
	}
}

func runC14(in *bufio.Scanner, out *bufio.Writer) {
	var w transport.SlidingWindow
	b := func(v bool) string {
		if v {
			return "1"
		}
		return "0"
	}
	for in.Scan() {
		f := strings.Fields(in.Text())
		res := "bad-op"
		switch {
		case len(f) == 1 && f[0] == "new":
			w = transport.SlidingWindow{}
			res = "ok"
		case len(f) == 2 && (f[0] == "acc" || f[0] == "mark" || f[0] == "chk"):
			q, err := strconv.ParseUint(f[1], 10, 64)
			if err != nil {
				break
			}
			switch f[0] {
			case "acc":
				ok := w.Check(q)
				if ok {
					w.Mark(q)
				}
				res = b(ok)
			case "mark":
				w.Mark(q)
				res = "ok"
			case "chk":
				res = b(w.Check(q))
			}
		case len(f) == 3 && f[0] == "probe":
			lo, e1 := strconv.ParseUint(f[1], 10, 64)
			n, e2 := strconv.Atoi(f[2])
			if e1 != nil || e2 != nil {
				break
			}
			sb := make([]byte, n)
			for i := 0; i < n; i++ {
				if w.Check(lo + uint64(i)) {
					sb[i] = '1'
				} else {
					sb[i] = '0'
				}
			}
			res = string(sb)
		}
		out.WriteString(res)
		out.WriteByte('\n')
	}
}
