package main

import (
	"bufio"
	"crypto/rand"
	"fmt"
	"strconv"
	"strings"

	"hop.computer/hop/certs"
	"hop.computer/hop/config"
	"hop.computer/hop/hopserver"
	"hop.computer/hop/keys"
	"hop.computer/hop/pkg/glob"
	. "hopverif/hvlib"
)

// C20 — glob matching, host-block selection, virtual-host selection.
// Exhaustive over the alphabet {a, b, *} up to a bounded length, plus random longer pairs and
// random host-block / virtual-host lists.  Every line is its own case.

func main() { Main(map[string]*Suite{"C20": {Gen: gen, Run: run}}) }

var alphabet = []byte{'a', 'b', '*'}

func allStrings(alpha []byte, maxLen int) [][]byte {
	res := [][]byte{{}}
	level := [][]byte{{}}
	for l := 1; l <= maxLen; l++ {
		var next [][]byte
		for _, s := range level {
			for _, c := range alpha {
				t := append(append([]byte{}, s...), c)
				next = append(next, t)
			}
		}
		res = append(res, next...)
		level = next
	}
	return res
}

func randPattern(r *Rng, maxLen int, alpha []byte) []byte {
	n := r.Intn(maxLen + 1)
	b := make([]byte, n)
	for i := range b {
		if r.Chance(1, 4) {
			b[i] = '*'
		} else {
			b[i] = Pick(r, alpha)
		}
	}
	return b
}

// instance derives an input from a pattern by substituting stars, then perturbs it sometimes
func instance(r *Rng, pat []byte, alpha []byte) []byte {
	var out []byte
	for _, c := range pat {
		if c == '*' {
			for k := r.Intn(4); k > 0; k-- {
				out = append(out, Pick(r, alpha))
			}
		} else {
			out = append(out, c)
		}
	}
	switch r.Intn(6) {
	case 0:
		if len(out) > 0 {
			out = out[:len(out)-1]
		}
	case 1:
		out = append(out, Pick(r, alpha))
	case 2:
		if len(out) > 0 {
			out[r.Intn(len(out))] = Pick(r, alpha)
		}
	}
	return out
}

func gen(g *GenCtx) {
	// corpus: the inputs on which the pinned matcher was wrong, and the repository's own cases
	for _, c := range [][2]string{{"a", ""}, {"a*", "a"}, {"*ab", "aab"}, {"d*d", "dadd"}, {"*", ""},
		{"", ""}, {"", "a"}, {"**", "a"}, {"*a*", "bab"}, {"*.example.com", "sub.example.com"},
		{"example.com", "sub.example.com"}, {"d*v*d", "david"}, {"d*v*d", "dave"}, {"d*d", "davidadrian"}} {
		g.Op("glob %s %s", HexOrDash([]byte(c[0])), HexOrDash([]byte(c[1])))
	}
	pl, sl := 5, 6
	if g.Thorough() {
		pl, sl = 7, 9
	}
	pats := allStrings(alphabet, pl)
	ins := allStrings([]byte{'a', 'b'}, sl)
	idx := 0
	for _, p := range pats {
		idx++
		if idx%g.Parts != g.Part {
			continue
		}
		for _, s := range ins {
			g.Op("glob %s %s", HexOrDash(p), HexOrDash(s))
		}
	}
	nr, nb := 5000, 300
	if g.Thorough() {
		nr, nb = 400000/g.Parts, 5000/g.Parts
	}
	alpha4 := []byte{'a', 'b', 'c', '.'}
	for i := 0; i < nr; i++ {
		ml := 12
		if g.R.Chance(1, 5) {
			ml = 64
		}
		p := randPattern(g.R, ml, alpha4)
		var s []byte
		if g.R.Chance(3, 4) {
			s = instance(g.R, p, alpha4)
		} else {
			s = randPattern(g.R, ml, alpha4) // may contain '*' as a plain input byte
		}
		if g.R.Chance(1, 50) {
			p = append(p, byte(g.R.Intn(256)))
			s = append(s, byte(g.R.Intn(256)))
		}
		g.Op("glob %s %s", HexOrDash(p), HexOrDash(s))
	}
	alpha2 := []byte{'a', 'b'}
	for i := 0; i < nb; i++ {
		host := randPattern(g.R, 5, alpha2)
		host = []byte(strings.ReplaceAll(string(host), "*", "a"))
		var blocks []string
		for b := g.R.Intn(6); b > 0; b-- {
			var ps []string
			for k := 1 + g.R.Intn(3); k > 0; k-- {
				p := randPattern(g.R, 4, alpha2)
				if g.R.Chance(1, 3) {
					p = append([]byte{}, host...)
					if len(p) > 0 && g.R.Chance(1, 2) {
						p[g.R.Intn(len(p))] = '*'
					}
				}
				ps = append(ps, HexOrDash(p))
			}
			blocks = append(blocks, strings.Join(ps, ","))
		}
		bl := "."
		if len(blocks) > 0 {
			bl = strings.Join(blocks, ";")
		}
		g.Op("hosts %s %s", HexOrDash(host), bl)
		if len(blocks) > 0 && g.R.Chance(1, 4) {
			// the same configuration asked about several hosts in a row: one that matches its first pattern,
			// the generated host, the empty name, the generated host again
			fb, _ := Unhex(strings.Split(blocks[0], ",")[0])
			fb = []byte(strings.ReplaceAll(string(fb), "*", "x"))
			g.Op("hostseq %s,%s,-,%s %s", HexOrDash(fb), HexOrDash(host), HexOrDash(host), bl)
		}
		// the same patterns, flattened, as a virtual-host list
		var flat []string
		for _, b := range blocks {
			flat = append(flat, strings.Split(b, ",")...)
		}
		fl := "."
		if len(flat) > 0 {
			fl = strings.Join(flat, ",")
		}
		g.Op("vhost %s %s", HexOrDash(host), fl)
	}
}

var idKey *keys.X25519KeyPair
var idLeaf, idInter *certs.Certificate
var idKEM *keys.KEMKeyPair

// identity is one key/certificate set shared by all generated name blocks.
func identity() (*keys.X25519KeyPair, *certs.Certificate, *certs.Certificate, *keys.KEMKeyPair) {
	if idKey == nil {
		rk := keys.GenerateNewSigningKeyPair()
		ik := keys.GenerateNewSigningKeyPair()
		root, err := certs.SelfSignRoot(&certs.Identity{PublicKey: rk.Public, Names: []certs.Name{certs.RawStringName("r")}}, rk)
		if err != nil {
			panic(err)
		}
		root.ProvideKey((*[32]byte)(&rk.Private))
		idInter, err = certs.IssueIntermediate(root, &certs.Identity{PublicKey: ik.Public, Names: []certs.Name{certs.RawStringName("i")}})
		if err != nil {
			panic(err)
		}
		idInter.ProvideKey((*[32]byte)(&ik.Private))
		idKey = keys.GenerateNewX25519KeyPair()
		idLeaf, err = certs.IssueLeaf(idInter, &certs.Identity{PublicKey: idKey.Public, Names: []certs.Name{certs.RawStringName("h")}})
		if err != nil {
			panic(err)
		}
		idKEM, err = keys.GenerateKEMKeyPair(rand.Reader)
		if err != nil {
			panic(err)
		}
	}
	return idKey, idLeaf, idInter, idKEM
}

func parseList(s, sep string) ([]string, bool) {
	if s == "." {
		return nil, true
	}
	var out []string
	for _, h := range strings.Split(s, sep) {
		b, ok := Unhex(h)
		if !ok {
			return nil, false
		}
		out = append(out, string(b))
	}
	return out, true
}

func run(in *bufio.Scanner, out *bufio.Writer) {
	for in.Scan() {
		f := strings.Fields(in.Text())
		res := "bad-op"
		switch {
		case len(f) == 3 && f[0] == "glob":
			p, ok1 := Unhex(f[1])
			s, ok2 := Unhex(f[2])
			if ok1 && ok2 {
				res = Guard(func() string {
					if glob.Glob(string(p), string(s)) {
						return "1"
					}
					return "0"
				})
			}
		case len(f) == 3 && f[0] == "hosts":
			h, ok := Unhex(f[1])
			if !ok {
				break
			}
			cc := &config.ClientConfig{}
			good := true
			if f[2] != "." {
				for i, b := range strings.Split(f[2], ";") {
					ps, ok := parseList(b, ",")
					if !ok {
						good = false
						break
					}
					cc.Hosts = append(cc.Hosts, config.HostConfigOptional{Patterns: ps, CAFiles: []string{strconv.Itoa(i)}})
				}
			}
			if !good {
				break
			}
			res = Guard(func() string {
				hc := cc.MatchHost(string(h))
				if len(hc.CAFiles) == 0 {
					return "none"
				}
				return strings.Join(hc.CAFiles, ",")
			})
		case len(f) == 3 && f[0] == "hostseq":
			// several lookups on ONE parsed configuration: each answers as if it were the first (a
			// lookup leaves nothing behind in the configuration)
			var hostsL [][]byte
			good := true
			for _, hx := range strings.Split(f[1], ",") {
				h, ok := Unhex(hx)
				good = good && ok
				hostsL = append(hostsL, h)
			}
			cc := &config.ClientConfig{}
			if f[2] != "." {
				for i, b := range strings.Split(f[2], ";") {
					ps, ok := parseList(b, ",")
					if !ok {
						good = false
						break
					}
					cc.Hosts = append(cc.Hosts, config.HostConfigOptional{Patterns: ps, CAFiles: []string{strconv.Itoa(i)}})
				}
			}
			if !good {
				break
			}
			res = Guard(func() string {
				var rs []string
				for _, h := range hostsL {
					hc := cc.MatchHost(string(h))
					if len(hc.CAFiles) == 0 {
						rs = append(rs, "none")
					} else {
						rs = append(rs, strings.Join(hc.CAFiles, ","))
					}
				}
				return strings.Join(rs, "/")
			})
		case len(f) == 3 && f[0] == "vhost":
			n, ok := Unhex(f[1])
			ps, ok2 := parseList(f[2], ",")
			if !ok || !ok2 {
				break
			}
			// the list is built the way hopd builds it: NewVirtualHosts over the configured name blocks
			sc := &config.ServerConfig{}
			k, leaf, inter, kem := identity()
			for _, p := range ps {
				sc.Names = append(sc.Names, config.NameConfig{Pattern: p, Key: k, Certificate: leaf, Intermediate: inter, KEMKey: kem})
			}
			vh, err := hopserver.NewVirtualHosts(sc, nil, nil)
			if err != nil {
				res = "err"
				break
			}
			res = Guard(func() string {
				m := vh.Match(string(n))
				if m == nil {
					return "none"
				}
				for i := range vh {
					if m == &vh[i] {
						return fmt.Sprint(i)
					}
				}
				return "foreign-pointer"
			})
		}
		out.WriteString(res)
		out.WriteByte('\n')
	}
}
