package main

import (
	"bufio"
	"encoding/binary"
	"errors"
	"fmt"
	"io"
	"net"
	"os"
	"os/exec"
	"path/filepath"
	"strconv"
	"strings"
	"sync"
	"testing/fstest"
	"time"

	"github.com/AstromechZA/etcpwdparse"

	"hop.computer/hop/authgrants"
	"hop.computer/hop/authkeys"
	"hop.computer/hop/certs"
	"hop.computer/hop/common"
	"hop.computer/hop/config"
	"hop.computer/hop/core"
	"hop.computer/hop/hopclient"
	"hop.computer/hop/hopserver"
	"hop.computer/hop/keys"
	"hop.computer/hop/pkg/thunks"
	"hop.computer/hop/transport"
	"hop.computer/hop/tubes"
	. "hopverif/hvlib"
)

// End-to-end runner: a real transport + hop server on a loopback UDP socket, real hop clients.
// login  = transport handshake + the real checkAuthorization;
// exec   = two exec tubes and the codex init message -> the real startCodex (checkCmd, StartCmd thunk);
// tube   = a tube of the given type followed by a *fence* tube of an unserved type: hopSession.start
//          handles tubes strictly in order, so once the fence has been closed by the server the
//          verdict on the probe tube has been executed — closed (EOF) or handed to a handler.
// Commands are never really executed: thunks.StartCmd runs /bin/true instead.

const e2eWait = 6 * time.Second

type chain struct {
	leafKey        *keys.X25519KeyPair
	leaf, inter    *certs.Certificate
	root           *certs.Certificate
	store          certs.Store
	clientKeys     map[int]*keys.X25519KeyPair
	clientKeysLock sync.Mutex
}

var theChain *chain

func getChain() *chain {
	if theChain != nil {
		return theChain
	}
	c := &chain{clientKeys: map[int]*keys.X25519KeyPair{}}
	c.leafKey = keys.GenerateNewX25519KeyPair()
	ik := keys.GenerateNewSigningKeyPair()
	rk := keys.GenerateNewSigningKeyPair()
	var err error
	c.root, err = certs.SelfSignRoot(certs.SigningIdentity(rk), rk)
	must(err)
	c.root.ProvideKey((*[32]byte)(&rk.Private))
	c.inter, err = certs.IssueIntermediate(c.root, certs.SigningIdentity(ik))
	must(err)
	c.inter.ProvideKey((*[32]byte)(&ik.Private))
	c.leaf, err = certs.IssueLeaf(c.inter, certs.LeafIdentity(c.leafKey, certs.DNSName("example.local")))
	must(err)
	c.store = certs.Store{}
	c.store.AddCertificate(c.root)
	theChain = c
	return c
}

func must(err error) {
	if err != nil {
		panic(err)
	}
}

func (c *chain) clientKey(k int) *keys.X25519KeyPair {
	c.clientKeysLock.Lock()
	defer c.clientKeysLock.Unlock()
	if kp, ok := c.clientKeys[k]; ok {
		return kp
	}
	kp := keys.GenerateNewX25519KeyPair()
	c.clientKeys[k] = kp
	return kp
}

type clock struct {
	sync.Mutex
	t time.Time
}

func (c *clock) set(t time.Time) { c.Lock(); c.t = t; c.Unlock() }
func (c *clock) now() time.Time  { c.Lock(); defer c.Unlock(); return c.t }

type e2eSess struct {
	client *hopclient.HopClient
	user   string
	sv     *hopserver.VerifSession // the server's side of it
}

type e2eWorld struct {
	udp      *net.UDPConn
	tr       *transport.Server
	srv      *hopserver.HopServer
	ks       *authkeys.SyncAuthKeySet
	fs       fstest.MapFS
	akFiles  map[string][]byte
	sessions []e2eSess
	kn       keyNames
	sock     string
}

var caseNo int
var sockDir string

func newWorld() *e2eWorld {
	ch := getChain()
	w := &e2eWorld{kn: keyNames{}, akFiles: map[string][]byte{}, fs: fstest.MapFS{}}
	var err error
	w.udp, err = net.ListenUDP("udp", &net.UDPAddr{IP: net.IPv4(127, 0, 0, 1)})
	must(err)
	w.tr, err = transport.NewServer(w.udp, transport.ServerConfig{
		Certificate:      ch.leaf,
		Intermediate:     ch.inter,
		KeyPair:          ch.leafKey,
		HandshakeTimeout: 5 * time.Second,
	})
	must(err)
	caseNo++
	w.sock = filepath.Join(sockDir, fmt.Sprintf("%d.sock", caseNo))
	cfg := &config.ServerConfig{EnableAuthgrants: true, DataTimeout: 1000 * time.Second, AgProxyListenSocket: &w.sock}
	w.ks = authkeys.NewSyncAuthKeySet()
	w.srv, err = hopserver.NewHopServerExt(w.tr, cfg, w.ks)
	must(err)
	w.srv.SetFSystem(w.fs)
	go w.srv.Serve()
	return w
}

// close tears the world down in the background: closing tubes that a handler still holds takes
// seconds (FIN timeouts) and nothing later depends on it
func (w *e2eWorld) close() {
	if w == nil {
		return
	}
	go func() {
		for _, s := range w.sessions {
			s.client.Close()
		}
		w.srv.Close()
		os.Remove(w.sock)
	}()
}

func (w *e2eWorld) dial(user string, k int) (*hopclient.HopClient, error) {
	ch := getChain()
	kp := ch.clientKey(k)
	h, p, _ := net.SplitHostPort(w.udp.LocalAddr().String())
	port, _ := strconv.Atoi(p)
	truth := true
	sn := "example.local"
	dt := "1000s"
	keyPath := "unused"
	hc := config.HostConfigOptional{
		Hostname:     &h,
		Port:         port,
		User:         &user,
		AutoSelfSign: &truth,
		Key:          &keyPath,
		ServerName:   &sn,
		DataTimeout:  &dt,
		Input:        os.Stdin,
	}
	c, err := hopclient.NewHopClient(hc.Unwrap())
	if err != nil {
		return nil, err
	}
	leaf, err := certs.SelfSignLeaf(&certs.Identity{PublicKey: kp.Public})
	if err != nil {
		return nil, err
	}
	auth := core.InMemoryAuthenticator{
		X25519KeyPair: kp,
		Leaf:          leaf,
		VerifyConfig:  transport.VerifyConfig{Store: ch.store},
	}
	res := make(chan error, 1)
	go func() { res <- c.DialExternalAuthenticator(w.udp.LocalAddr().String(), auth) }()
	select {
	case err = <-res:
	case <-time.After(e2eWait):
		return nil, errors.New("timeout")
	}
	if err != nil {
		go c.Close()
		return nil, err
	}
	return c, nil
}

func execInit(cmd string, shell bool) []byte {
	r := make([]byte, 9+len(cmd))
	if shell {
		r[0] |= 1
	}
	binary.BigEndian.PutUint32(r[1:], uint32(len(cmd)))
	copy(r[5:], cmd)
	binary.BigEndian.PutUint32(r[5+len(cmd):], 0)
	return r
}

// readByte reads one byte with a deadline; "eof", "timeout" or the byte
func readByte(t interface {
	io.Reader
	SetReadDeadline(time.Time) error
}, d time.Duration) string {
	t.SetReadDeadline(time.Now().Add(d))
	b := make([]byte, 1)
	n, err := t.Read(b)
	t.SetReadDeadline(time.Time{})
	if n == 1 {
		return strconv.Itoa(int(b[0]))
	}
	if err != nil {
		var ne net.Error
		if errors.As(err, &ne) && ne.Timeout() {
			return "timeout"
		}
		if errors.Is(err, os.ErrDeadlineExceeded) {
			return "timeout"
		}
		return "eof"
	}
	return "eof"
}

func runE2E(in *bufio.Scanner, out *bufio.Writer) {
	clk := &clock{t: time.Unix(0, 0)}
	thunks.TimeNow = clk.now
	thunks.StartCmd = func(c *exec.Cmd) error {
		// never run what the line protocol says: the decision to start is the observable
		c.Path, c.Args, c.SysProcAttr, c.Dir = "/bin/true", []string{"true"}, nil, ""
		c.Stdin, c.Stdout, c.Stderr = nil, nil, nil
		return c.Start()
	}
	thunks.LookupUser = func(username string) (*etcpwdparse.EtcPasswdEntry, error) {
		ent, err := etcpwdparse.ParsePasswdLine(fmt.Sprintf("%s:x:1000:1000:Test User:/home/%s:/bin/sh", username, username))
		return &ent, err
	}
	var w *e2eWorld
	// once an operation of a case ran into the watchdog the session is stuck (e.g. a second started
	// command blocks in startCodex): the rest of the case is answered at once instead of waiting again
	wedged := false
	sockDir, _ = os.MkdirTemp("", "hv-c07-")
	defer os.RemoveAll(sockDir)
	okUser := func(u []byte) bool {
		if len(u) == 0 || len(u) > 16 {
			return false
		}
		for _, c := range u {
			if c < 'a' || c > 'z' {
				return false
			}
		}
		return true
	}
	for in.Scan() {
		f := strings.Fields(in.Text())
		res := Guard(func() string {
			if len(f) == 0 {
				return "bad-op"
			}
			if f[0] != "new" && w == nil {
				w = newWorld()
			}
			if wedged && (f[0] == "exec" || f[0] == "tube" || f[0] == "login" || f[0] == "loginkey") {
				return "wedged"
			}
			switch f[0] {
			case "new":
				if len(f) != 1 {
					return "bad-op"
				}
				w.close()
				w = newWorld()
				wedged = false
				return "ok"
			case "grant":
				g, ok := parseGrant(f[1:])
				if !ok || !okUser([]byte(g.user)) {
					return "bad-op"
				}
				pk := getChain().clientKey(g.key).Public
				w.kn[pk] = g.key
				if err := w.srv.AddAuthGrant(g.intent(pk)); err != nil {
					return "err"
				}
				return "ok"
			case "login", "loginkey":
				if len(f) != 3 {
					return "bad-op"
				}
				u, ok1 := bytesLe(f[1], 255)
				k, ok2 := natLt(f[2], 65536)
				if !ok1 || !ok2 || !okUser(u) {
					return "bad-op"
				}
				kp := getChain().clientKey(int(k))
				w.kn[kp.Public] = int(k)
				if f[0] == "loginkey" {
					path := "home/" + string(u) + "/.hop/authorized_keys"
					w.akFiles[string(u)] = append(w.akFiles[string(u)], []byte(kp.Public.String()+"\n")...)
					w.fs[path] = &fstest.MapFile{Data: w.akFiles[string(u)], Mode: 0600}
				}
				c, err := w.dial(string(u), int(k))
				if err != nil {
					return "refused"
				}
				// refused connection attempts leave entries in the server's session map; logins are
				// sequential, so the session just admitted is the one with the highest id
				ss := w.srv.VerifSessions()
				if len(ss) == 0 {
					return "no-server-session"
				}
				sv := ss[len(ss)-1]
				w.sessions = append(w.sessions, e2eSess{c, string(u), sv})
				if !sv.UsingAuthGrant() {
					return fmt.Sprintf("sess %d -", len(w.sessions)-1)
				}
				return fmt.Sprintf("sess %d %s", len(w.sessions)-1, showGrants(w.kn, string(u), sv.AuthorizedActions()))
			case "exec":
				if len(f) != 6 {
					return "bad-op"
				}
				i, ok1 := natLt(f[1], 1000)
				sec, ok2 := natLt(f[2], tMax)
				nsec, ok3 := natLt(f[3], 1000000000)
				cmd, ok4 := bytesLe(f[4], 255)
				if !ok1 || !ok2 || !ok3 || !ok4 || (f[5] != "0" && f[5] != "1") {
					return "bad-op"
				}
				if int(i) >= len(w.sessions) {
					return "nosess"
				}
				s := w.sessions[i]
				clk.set(time.Unix(int64(sec), int64(nsec)))
				t1, err := s.client.TubeMuxer.CreateReliableTube(common.ExecTube)
				if err != nil {
					return "tube-err"
				}
				t2, err := s.client.TubeMuxer.CreateReliableTube(common.ExecTube)
				if err != nil {
					return "tube-err"
				}
				in, outT := t1, t2
				if t2.GetID() < t1.GetID() {
					in, outT = t2, t1
				}
				in.Write(execInit(string(cmd), f[5] == "1"))
				st := readByte(outT, e2eWait)
				go func() { in.Close(); outT.Close() }()
				verdict := "status-" + st + " "
				switch st {
				case "1":
					verdict = "started "
				case "2":
					verdict = "refused "
				case "timeout":
					wedged = true
				}
				return verdict + showGrants(w.kn, s.user, s.sv.AuthorizedActions())
			case "tube":
				if len(f) != 4 {
					return "bad-op"
				}
				i, ok1 := natLt(f[1], 1000)
				tt, ok2 := natLt(f[2], 256)
				if !ok1 || !ok2 || (f[3] != "0" && f[3] != "1") || tt == uint64(common.ExecTube) {
					return "bad-op"
				}
				if int(i) >= len(w.sessions) {
					return "nosess"
				}
				mux := w.sessions[i].client.TubeMuxer
				// "served" is inferred from silence: no end-of-stream on the probe after the fence - a tube the
				// server handles after the probe - has come back.  How long silence must last is scaled by how
				// long the fence's own round trip took just now: 400 ms on an idle machine, up to 6 s when the
				// machine is so loaded that the fence needed hundreds of milliseconds.
				var probe interface {
					io.Reader
					io.Closer
					SetReadDeadline(time.Time) error
				}
				var err error
				if f[3] == "1" {
					probe, err = mux.CreateReliableTube(tubes.TubeType(tt))
				} else {
					probe, err = mux.CreateUnreliableTube(tubes.TubeType(tt))
				}
				if err != nil {
					return "tube-err"
				}
				t0 := time.Now()
				fence, err := mux.CreateReliableTube(common.PrincipalProxyTube)
				if err != nil {
					return "tube-err"
				}
				if st := readByte(fence, e2eWait); st != "eof" {
					wedged = wedged || st == "timeout"
					return "fence-" + st
				}
				wait := 400*time.Millisecond + 12*time.Since(t0)
				if wait > 6*time.Second {
					wait = 6 * time.Second
				}
				st := readByte(probe, wait)
				go func() { probe.Close(); fence.Close() }()
				switch st {
				case "eof":
					return "closed"
				case "timeout":
					return "served"
				}
				return "served" // the handler answered something
			case "issue":
				i, g, leafOk, ok := parseIssue(f)
				if !ok || !okUser([]byte(g.user)) {
					return "bad-op"
				}
				if i >= len(w.sessions) {
					return "nosess"
				}
				pk := getChain().clientKey(g.key).Public
				w.kn[pk] = g.key
				in := g.intent(pk)
				if !leafOk {
					in.DelegateCert.Type = certs.Intermediate
				}
				t, err := w.sessions[i].client.TubeMuxer.CreateReliableTube(common.AuthGrantTube)
				if err != nil {
					return "tube-err"
				}
				defer func() { go t.Close() }()
				if err := authgrants.WriteIntentCommunication(t, *in); err != nil {
					return "write-err"
				}
				t.SetReadDeadline(time.Now().Add(e2eWait))
				resp, err := authgrants.ReadConfOrDenial(t)
				t.SetReadDeadline(time.Time{})
				if err != nil {
					if errors.Is(err, os.ErrDeadlineExceeded) {
						wedged = true
						return "timeout"
					}
					return "closed"
				}
				if resp.MsgType == authgrants.IntentConfirmation {
					return "confirmed"
				}
				return "denied"
			case "dump":
				if len(f) != 1 {
					return "bad-op"
				}
				return dump(w.srv, w.ks, w.kn)
			}
			return "bad-op"
		})
		out.WriteString(res)
		out.WriteByte('\n')
	}
}

// ---------------------------------------------------------------- generators

func hx(s string) string { return HexOrDash([]byte(s)) }

func genE2E(g *GenCtx) {
	g.R = NewRng(g.R.U64() + uint64(g.Part)*0x9E3779B97F4A7C15) // parts draw different random cases

	n := 24
	if g.Thorough() {
		n = 400 / g.Parts
	}
	cmds := []string{"ls", "cat x", "true"}
	for c := 0; c < n; c++ {
		g.Op("new")
		start := uint64(1000 + g.R.Intn(3)*1000)
		exp := start + Pick(g.R, []uint64{1, 100, 1000})
		cmd := Pick(g.R, cmds)
		user, other := "u", "v"
		// one command grant for (u, key 1); sometimes grants of other kinds / for others beside it
		g.Op("grant 2 %d %d %s 1 %s", start, exp, hx(user), hx(cmd))
		if g.R.Chance(1, 2) {
			g.Op("grant %d %d %d %s 1 -", Pick(g.R, []int{3, 4, 9}), start, exp, hx(user))
		}
		if g.R.Chance(1, 2) {
			g.Op("grant 2 %d %d %s 2 %s", start, exp, hx(other), hx(cmd))
		}
		if g.R.Chance(1, 3) {
			g.Op("login %s 2", hx(user)) // key 2 has no grant for u
		}
		if g.R.Chance(1, 3) {
			g.Op("login %s 3", hx(user)) // unknown key
		}
		g.Op("dump")
		g.Op("login %s 1", hx(user))
		g.Op("dump")
		g.Op("login %s 1", hx(user)) // grants are gone: a second login with the same key is refused
		// requests that must be refused, around the boundaries
		refusals := []string{
			fmt.Sprintf("exec 0 %d 0 %s 0", start-1, hx(cmd)),
			fmt.Sprintf("exec 0 %d 999999999 %s 0", start-1, hx(cmd)),
			fmt.Sprintf("exec 0 %d 0 %s 0", exp, hx(cmd)),
			fmt.Sprintf("exec 0 %d 0 %s 0", exp+1, hx(cmd)),
			fmt.Sprintf("exec 0 %d 0 %s 0", start, hx(cmd+" ")),
			fmt.Sprintf("exec 0 %d 0 %s 0", start, hx("rm -rf /")),
			fmt.Sprintf("exec 0 %d 0 %s 1", start, hx(cmd)),
		}
		for _, r := range refusals {
			if g.R.Chance(1, 2) {
				g.Op("%s", r)
			}
		}
		// the granted request at an admissible instant, then once more
		at := Pick(g.R, []uint64{start, exp - 1, (start + exp) / 2})
		g.Op("exec 0 %d %d %s 0", at, Pick(g.R, []int{0, 0, 999999999}), hx(cmd))
		g.Op("exec 0 %d 0 %s 0", at, hx(cmd))
		// tube dispatch in the grant-admitted session and in a session admitted by key
		g.Op("loginkey %s 7", hx(other))
		for k := 0; k < 4; k++ {
			g.Op("tube %d %d %d", g.R.Intn(2), Pick(g.R, []int{0, 2, 3, 4, 5, 6, 7, 8, 200}), g.R.Intn(2))
		}
		// a session issues grants through an authorization-grant tube: the principal's normal way
		// (session 1, admitted by key, for its own user) and the same from the grant-admitted session
		switch g.R.Intn(4) {
		case 0:
			g.Op("issue 1 2 1000 4000000000 %s 4 %s 1", hx(other), hx("id"))
			g.Op("issue 1 2 1000 4000000000 %s 4 %s 1", hx(user), hx("id")) // for another user: policy refuses
			g.Op("issue 1 1 1000 1000 %s 4 - 1", hx(other))                 // already expired
			g.Op("issue 1 5 1000 4000000000 %s 4 - 1", hx(other))           // unknown kind
			g.Op("issue 1 1 1000 4000000000 %s 4 - 0", hx(other))           // ill-formatted delegate certificate
			g.Op("dump")
			g.Op("login %s 4", hx(other))
		case 1:
			g.Op("issue 0 1 1000 4000000000 %s 1 - 1", hx(user)) // the delegate grants itself a shell
			g.Op("dump")
			g.Op("login %s 1", hx(user))
		}
		g.Op("dump")
	}
	g.Op("new")
	for _, b := range []string{"tube 0 1 1", "tube 0 5", "tube x 5 1", "tube 0 256 1", "tube 0 5 2", "grant 2 1 2 55 1 -", "login - 1"} {
		g.Op("%s", b)
	}
	g.Op("tube 0 5 1")
}

// genFull: the tube types for which the full statement of C07 demands a grant.  One probe per case,
// so that every disagreement gets its own signature; control lines on which the full statement and
// the code agree come along.
func genFull(g *GenCtx) {
	if g.Part != 0 {
		return
	}
	for _, p := range [][2]int{{5, 1}, {2, 1}, {7, 1}} {
		g.Op("new")
		g.Op("grant 2 1000 2000 %s 1 %s", hx("u"), hx("ls"))
		g.Op("login %s 1", hx("u"))
		g.Op("loginkey %s 7", hx("v"))
		g.Op("exec 0 1500 0 %s 0", hx("cat")) // refused: no such grant
		g.Op("tube 0 3 1")                    // unserved type: closed
		g.Op("tube 0 6 1")                    // PF data tube without forwarding: closed by its handler
		g.Op("tube 1 %d %d", p[0], p[1])      // session admitted by key: served
		g.Op("tube 0 %d %d", p[0], p[1])      // grant-admitted session: the full statement demands a refusal
		g.Op("exec 0 1500 0 %s 0", hx("ls"))  // the granted command still runs
	}
	// the grant-admitted session issues itself a shell grant
	g.Op("new")
	g.Op("grant 2 1000 2000 %s 1 %s", hx("u"), hx("ls"))
	g.Op("login %s 1", hx("u"))
	g.Op("loginkey %s 7", hx("v"))
	g.Op("issue 1 1 1000 4000000000 %s 4 - 1", hx("v")) // a principal's session: confirmed
	g.Op("issue 0 1 1000 4000000000 %s 1 - 1", hx("u")) // the full statement demands a refusal
	g.Op("dump")
}
