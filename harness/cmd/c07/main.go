package main

import (
	"bufio"
	"fmt"
	"sort"
	"strconv"
	"strings"
	"time"

	"hop.computer/hop/authgrants"
	"hop.computer/hop/authkeys"
	"hop.computer/hop/certs"
	"hop.computer/hop/config"
	"hop.computer/hop/hopserver"
	"hop.computer/hop/keys"
	"hop.computer/hop/pkg/thunks"
	. "hopverif/hvlib"
)

// C07 — what a session admitted through authorization grants may do.
//
// Suite C07 (this file): the real HopServer (grant map, key set, AddAuthGrant,
// AuthorizeKeyAuthGrant) and, through the `verif` export shims, the real checkCmd / checkIntent on
// sessions built from what AuthorizeKeyAuthGrant returned; clock through pkg/thunks.TimeNow.
// Suites C07e2e / C07full (e2e.go): a real server and real clients over loopback UDP, driving the
// real checkAuthorization, the tube dispatch of hopSession.start and startCodex.

func main() {
	Main(map[string]*Suite{
		"C07":     {Gen: genState, Run: runState},
		"C07e2e":  {Gen: genE2E, Run: runE2E},
		"C07full": {Gen: genFull, Run: runE2E},
	})
}

// ---------------------------------------------------------------- shared parsing / printing

const tMax = uint64(1) << 40

func natLt(s string, bound uint64) (uint64, bool) {
	if len(s) == 0 || len(s) > 20 {
		return 0, false
	}
	for _, c := range s {
		if c < '0' || c > '9' {
			return 0, false
		}
	}
	v, err := strconv.ParseUint(s, 10, 64)
	if err != nil || v >= bound {
		return 0, false
	}
	return v, true
}

func bytesLe(s string, max int) ([]byte, bool) {
	b, ok := Unhex(s)
	if !ok || len(b) > max {
		return nil, false
	}
	return b, true
}

// keyOf maps a key token to a public key (state suite: no private key needed)
func keyOf(k int) keys.DHPublicKey {
	var pk keys.DHPublicKey
	for i := range pk {
		pk[i] = byte(k*11 + i*5 + 3)
	}
	pk[0], pk[1] = byte(k>>8), byte(k)
	return pk
}

type keyNames map[keys.DHPublicKey]int

func (kn keyNames) show(pk keys.DHPublicKey) string {
	if k, ok := kn[pk]; ok {
		return strconv.Itoa(k)
	}
	return "?"
}

func showGrant(kn keyNames, user string, ag *authgrants.Authgrant) string {
	// a bound that was never filled in (zero time.Time) is before every clock value: shown as 0
	unix := func(t time.Time) int64 {
		if t.IsZero() {
			return 0
		}
		return t.Unix()
	}
	return fmt.Sprintf("%d,%d,%d,%s,%s,%s", byte(ag.GrantType), unix(ag.StartTime), unix(ag.ExpTime),
		HexOrDash([]byte(user)), kn.show(ag.DelegateCert.PublicKey), HexOrDash([]byte(ag.AssociatedData.CommandGrantData.Cmd)))
}

func showGrants(kn keyNames, user string, ags []authgrants.Authgrant) string {
	if len(ags) == 0 {
		return "-"
	}
	var p []string
	for i := range ags {
		p = append(p, showGrant(kn, user, &ags[i]))
	}
	return strings.Join(p, ";")
}

func dump(srv *hopserver.HopServer, ks *authkeys.SyncAuthKeySet, kn keyNames) string {
	snap := srv.VerifAgMap().VerifSnapshot()
	type grp struct {
		userHex string
		key     int
		s       string
	}
	var gs []grp
	for u, byKey := range snap {
		for pk, ags := range byKey {
			k, ok := kn[pk]
			if !ok {
				k = 1 << 30
			}
			if len(ags) == 0 {
				// an entry without grants still lets RemoveAuthgrants succeed: make it visible
				gs = append(gs, grp{HexOrDash([]byte(u)), k, "empty-entry," + HexOrDash([]byte(u)) + "," + kn.show(pk)})
				continue
			}
			gs = append(gs, grp{HexOrDash([]byte(u)), k, showGrants(kn, u, ags)})
		}
	}
	sort.Slice(gs, func(i, j int) bool {
		if gs[i].userHex != gs[j].userHex {
			return gs[i].userHex < gs[j].userHex
		}
		return gs[i].key < gs[j].key
	})
	var parts []string
	for _, g := range gs {
		parts = append(parts, g.s)
	}
	g := "-"
	if len(parts) > 0 {
		g = strings.Join(parts, ";")
	}
	var present []int
	for pk, k := range kn {
		leaf := certs.Certificate{Type: certs.Leaf, PublicKey: pk}
		if ks.VerifyLeaf(&leaf, certs.VerifyOptions{}) == nil {
			present = append(present, k)
		}
	}
	sort.Ints(present)
	k := "-"
	if len(present) > 0 {
		var p []string
		for _, x := range present {
			p = append(p, strconv.Itoa(x))
		}
		k = strings.Join(p, ",")
	}
	return "grants=" + g + " keys=" + k
}

type grantArgs struct {
	gtype      int
	startNs    int64 // sub-second part of the start (only a grant stored by code can have one)
	start, exp int64
	user       string
	key        int
	cmd        string
}

func parseGrant(f []string) (g grantArgs, ok bool) {
	if len(f) != 6 {
		return
	}
	gt, ok1 := natLt(f[0], 256)
	var frac uint64
	if i := strings.IndexByte(f[1], '.'); i >= 0 {
		var okf bool
		frac, okf = natLt(f[1][i+1:], 1000000000)
		if !okf {
			return
		}
		f = append([]string{}, f...)
		f[1] = f[1][:i]
	}
	st, ok2 := natLt(f[1], tMax)
	ex, ok3 := natLt(f[2], tMax)
	// `z`: the bound is left at the zero time.Time
	zs, ze := f[1] == "z", f[2] == "z"
	ok2, ok3 = ok2 || zs, ok3 || ze
	u, ok4 := bytesLe(f[3], 255)
	k, ok5 := natLt(f[4], 65536)
	cmd, ok6 := bytesLe(f[5], 255)
	if !(ok1 && ok2 && ok3 && ok4 && ok5 && ok6) {
		return
	}
	g = grantArgs{int(gt), int64(frac), int64(st), int64(ex), string(u), int(k), string(cmd)}
	if zs {
		g.start = unset
	}
	if ze {
		g.exp = unset
	}
	return g, true
}

const unset = int64(-1)

func timeOf(v int64) time.Time {
	if v == unset {
		return time.Time{}
	}
	return time.Unix(v, 0)
}

// issue <sess> <gtype> <start> <exp> <userHex> <key> <cmdHex> <leafOk>
func parseIssue(f []string) (sess int, g grantArgs, leafOk bool, ok bool) {
	if len(f) != 9 || (f[8] != "0" && f[8] != "1") {
		return
	}
	i, ok1 := natLt(f[1], 1000)
	g, ok2 := parseGrant(f[2:8])
	if !ok1 || !ok2 || g.start == unset || g.exp == unset || g.startNs != 0 {
		return
	}
	if g.gtype == 3 || g.gtype == 4 || (g.gtype != 2 && g.cmd != "") || (g.exp > 1500000000 && g.exp < 3000000000) {
		return
	}
	return int(i), g, f[8] == "1", true
}

func (g grantArgs) intent(pk keys.DHPublicKey) *authgrants.Intent {
	i := &authgrants.Intent{
		GrantType:      authgrants.GrantType(g.gtype),
		StartTime:      timeOf(g.start).Add(time.Duration(g.startNs)),
		ExpTime:        timeOf(g.exp),
		TargetSNI:      certs.DNSName("target.example"),
		TargetUsername: g.user,
		DelegateCert: certs.Certificate{Version: 1, Type: certs.Leaf, PublicKey: pk,
			IssuedAt: time.Unix(1, 0), ExpiresAt: time.Unix(1<<40, 0)},
	}
	i.AssociatedData.CommandGrantData.Cmd = g.cmd
	return i
}

// ---------------------------------------------------------------- suite C07: state machine level

type stSess struct {
	v    *hopserver.VerifSession
	user string
}

func runState(in *bufio.Scanner, out *bufio.Writer) {
	var srv *hopserver.HopServer
	var ks *authkeys.SyncAuthKeySet
	var sessions []stSess
	kn := keyNames{}
	now := time.Unix(0, 0)
	thunks.TimeNow = func() time.Time { return now }
	reset := func() {
		ks = authkeys.NewSyncAuthKeySet()
		srv, _ = hopserver.NewHopServerExt(nil, &config.ServerConfig{EnableAuthgrants: true}, ks)
		sessions = nil
		kn = keyNames{}
	}
	reset()
	for in.Scan() {
		f := strings.Fields(in.Text())
		res := Guard(func() string {
			if len(f) == 0 {
				return "bad-op"
			}
			switch f[0] {
			case "new":
				if len(f) != 1 {
					return "bad-op"
				}
				reset()
				return "ok"
			case "grant":
				g, ok := parseGrant(f[1:])
				if !ok {
					return "bad-op"
				}
				pk := keyOf(g.key)
				kn[pk] = g.key
				if err := srv.AddAuthGrant(g.intent(pk)); err != nil {
					return "err"
				}
				return "ok"
			case "login", "loginkey":
				if len(f) != 3 {
					return "bad-op"
				}
				u, ok1 := bytesLe(f[1], 255)
				k, ok2 := natLt(f[2], 65536)
				if !ok1 || !ok2 {
					return "bad-op"
				}
				pk := keyOf(int(k))
				kn[pk] = int(k)
				if f[0] == "loginkey" {
					// what checkAuthorization leaves behind when AuthorizeKey succeeded
					sessions = append(sessions, stSess{srv.VerifNewSession(string(u), false, nil), string(u)})
					return fmt.Sprintf("sess %d -", len(sessions)-1)
				}
				// the grant branch of checkAuthorization
				actions, err := srv.AuthorizeKeyAuthGrant(string(u), pk)
				if err != nil {
					return "refused"
				}
				sessions = append(sessions, stSess{srv.VerifNewSession(string(u), true, actions), string(u)})
				return fmt.Sprintf("sess %d %s", len(sessions)-1, showGrants(kn, string(u), actions))
			case "exec":
				if len(f) != 6 {
					return "bad-op"
				}
				i, ok1 := natLt(f[1], 1000)
				sec, ok2 := natLt(f[2], tMax)
				nsec, ok3 := natLt(f[3], 1000000000)
				cmd, ok4 := bytesLe(f[4], 255)
				if !ok1 || !ok2 || !ok3 || !ok4 || (f[5] != "0" && f[5] != "1") {
					return "bad-op"
				}
				if int(i) >= len(sessions) {
					return "nosess"
				}
				s := sessions[i]
				now = time.Unix(int64(sec), int64(nsec))
				verdict := "started "
				// the head of startCodex
				if s.v.UsingAuthGrant() {
					if _, err := s.v.CheckCmd(string(cmd), f[5] == "1"); err != nil {
						verdict = "refused "
					}
				}
				return verdict + showGrants(kn, s.user, s.v.AuthorizedActions())
			case "intent":
				if len(f) != 6 {
					return "bad-op"
				}
				i, ok1 := natLt(f[1], 1000)
				gt, ok2 := natLt(f[2], 256)
				ex, ok3 := natLt(f[3], tMax)
				u, ok4 := bytesLe(f[4], 255)
				if !ok1 || !ok2 || !ok3 || !ok4 || (f[5] != "0" && f[5] != "1") {
					return "bad-op"
				}
				if ex > 1500000000 && ex < 3000000000 {
					return "bad-op" // checkIntent reads the wall clock: only clearly past / clearly future
				}
				if int(i) >= len(sessions) {
					return "nosess"
				}
				in := grantArgs{int(gt), 0, 0, int64(ex), string(u), 1, "x"}.intent(keyOf(1))
				if f[5] == "0" {
					in.DelegateCert.Type = certs.Intermediate
				}
				if err := sessions[i].v.CheckIntent(*in, nil); err != nil {
					return "denied"
				}
				return "ok"
			case "issue":
				i, g, leafOk, ok := parseIssue(f)
				if !ok {
					return "bad-op"
				}
				if i >= len(sessions) {
					return "nosess"
				}
				pk := keyOf(g.key)
				kn[pk] = g.key
				in := g.intent(pk)
				if !leafOk {
					in.DelegateCert.Type = certs.Intermediate
				}
				// what handleIntentCommunication does with the session's callbacks
				if err := sessions[i].v.CheckIntent(*in, nil); err != nil {
					return "denied"
				}
				if err := srv.AddAuthGrant(in); err != nil {
					return "denied"
				}
				return "confirmed"
			case "tube":
				// the dispatch is inline in hopSession.start; it is exercised end to end (suite C07e2e)
				return "bad-op"
			case "dump":
				if len(f) != 1 {
					return "bad-op"
				}
				return dump(srv, ks, kn)
			}
			return "bad-op"
		})
		out.WriteString(res)
		out.WriteByte('\n')
	}
}

// ---------------------------------------------------------------- generator, suite C07

type genGrant struct {
	gtype      int
	start, exp uint64
	user       string
	key        int
	cmd        string
	zs, ze     bool   // the bound is left unset (zero time.Time); start / exp are 0 then
	frac       uint64 // nanoseconds past start
}

func (gg genGrant) words() string {
	st, ex := strconv.FormatUint(gg.start, 10), strconv.FormatUint(gg.exp, 10)
	if gg.zs {
		st = "z"
	} else if gg.frac != 0 {
		st += "." + strconv.FormatUint(gg.frac, 10)
	}
	if gg.ze {
		ex = "z"
	}
	return fmt.Sprintf("%d %s %s %s %d %s", gg.gtype, st, ex, HexOrDash([]byte(gg.user)), gg.key, HexOrDash([]byte(gg.cmd)))
}

func genState(g *GenCtx) {
	g.R = NewRng(g.R.U64() + uint64(g.Part)*0x9E3779B97F4A7C15) // parts draw different random cases

	// fixed cases first: the boundary clocks around start and expiry of a single command grant
	g.Op("new")
	g.Op("grant 2 1000 2000 %s 1 %s", HexOrDash([]byte("u")), HexOrDash([]byte("ls")))
	g.Op("grant 2 1000 2000 %s 1 %s", HexOrDash([]byte("u")), HexOrDash([]byte("ls")))
	g.Op("grant 2 1000 2000 %s 1 %s", HexOrDash([]byte("u")), HexOrDash([]byte("ls")))
	g.Op("dump")
	g.Op("login %s 1", HexOrDash([]byte("u")))
	g.Op("dump")
	g.Op("exec 0 999 0 %s 0", HexOrDash([]byte("ls")))         // not yet effective
	g.Op("exec 0 999 999999999 %s 0", HexOrDash([]byte("ls"))) // still not
	g.Op("exec 0 2000 0 %s 0", HexOrDash([]byte("ls")))        // expired
	g.Op("exec 0 1000 0 %s 0", HexOrDash([]byte("ls")))        // first effective instant
	g.Op("exec 0 1999 999999999 %s 0", HexOrDash([]byte("ls")))
	g.Op("exec 0 1500 0 %s 1", HexOrDash([]byte("ls"))) // shell on a command grant
	g.Op("exec 0 1500 0 %s 0", HexOrDash([]byte("lsx")))
	g.Op("exec 0 1500 0 %s 0", HexOrDash([]byte("ls")))
	g.Op("exec 0 1500 0 %s 0", HexOrDash([]byte("ls"))) // all used
	// a start that is not on a whole second
	g.Op("new")
	g.Op("grant 2 1000.800000000 2000 %s 1 %s", HexOrDash([]byte("u")), HexOrDash([]byte("ls")))
	g.Op("login %s 1", HexOrDash([]byte("u")))
	g.Op("exec 0 1000 300000000 %s 0", HexOrDash([]byte("ls")))
	g.Op("exec 0 1000 799999999 %s 0", HexOrDash([]byte("ls")))
	g.Op("exec 0 1000 800000000 %s 0", HexOrDash([]byte("ls")))
	// bounds that were never filled in (zero time.Time): no expiry = always expired, no start = effective at once
	g.Op("new")
	g.Op("grant 2 1000 z %s 1 %s", HexOrDash([]byte("u")), HexOrDash([]byte("ls")))
	g.Op("grant 2 z 2000 %s 1 %s", HexOrDash([]byte("u")), HexOrDash([]byte("id")))
	g.Op("grant 1 z z %s 1 -", HexOrDash([]byte("u")))
	g.Op("dump")
	g.Op("login %s 1", HexOrDash([]byte("u")))
	g.Op("exec 0 1500 0 %s 0", HexOrDash([]byte("ls")))
	g.Op("exec 0 0 0 %s 0", HexOrDash([]byte("ls")))
	g.Op("exec 0 1500 0 - 1")
	g.Op("exec 0 2000 0 %s 0", HexOrDash([]byte("id")))
	g.Op("exec 0 5 0 %s 0", HexOrDash([]byte("id")))

	n := 3000
	if g.Thorough() {
		n = 200000 / g.Parts
	}
	users := []string{"u", "v", "", "root"}
	cmds := []string{"ls", "ls ", "cat /etc/passwd", "", "LS"}
	type pair struct {
		user string
		key  int
	}
	for c := 0; c < n; c++ {
		g.Op("new")
		base := uint64(1000 + g.R.Intn(5)*1000)
		if g.R.Chance(1, 5) {
			// far from today: 2242, both sides of 2262-04-11 (where nanoseconds since 1970 leave int64),
			// 2300, 2600, 19000
			base = Pick(g.R, []uint64{1 << 33, 9223372036 - 250, 9223372037, 10413792000, 19880899200, 1 << 39})
		}
		nu, nk := 1+g.R.Intn(2), 1+g.R.Intn(3)
		// bookkeeping only (which pairs have stored grants, which grants each session got): it
		// steers requests towards interesting targets and decides nothing
		stored := map[pair][]genGrant{}
		var sessGrants [][]genGrant
		newGrant := func() {
			gg := genGrant{
				gtype: Pick(g.R, []int{1, 2, 2, 2, 2, 3, 4, 5, 0, 9}),
				start: base + uint64(g.R.Intn(3))*100,
				user:  users[g.R.Intn(nu)],
				key:   1 + g.R.Intn(nk),
				cmd:   cmds[g.R.Intn(3)],
			}
			gg.exp = gg.start + Pick(g.R, []uint64{0, 1, 100, 100, 1000})
			if g.R.Chance(1, 10) {
				gg.exp = gg.start + Pick(g.R, []uint64{1000000000, 9467107200, 12622780800}) // 30, 300, 400 years
			}
			if g.R.Chance(1, 12) && gg.start >= 50 {
				gg.exp = gg.start - 50 // expires before it starts
			}
			if g.R.Chance(1, 14) {
				gg.ze, gg.exp = true, 0 // the expiry was never filled in: such a grant is never valid
			}
			if g.R.Chance(1, 25) {
				gg.zs, gg.start = true, 0
			} else if g.R.Chance(1, 8) {
				gg.frac = Pick(g.R, []uint64{1, 500000000, 800000000, 999999999}) // not on a whole second
			}
			if gg.gtype != 2 && g.R.Chance(2, 3) {
				gg.cmd = ""
			}
			g.Op("grant %s", gg.words())
			p := pair{gg.user, gg.key}
			stored[p] = append(stored[p], gg)
		}
		login := func() {
			var ps []pair
			for u := 0; u < nu; u++ {
				for k := 1; k <= nk; k++ {
					if len(stored[pair{users[u], k}]) > 0 {
						ps = append(ps, pair{users[u], k})
					}
				}
			}
			p := pair{users[g.R.Intn(nu+1)%len(users)], 1 + g.R.Intn(nk+1)}
			if len(ps) > 0 && g.R.Chance(4, 5) {
				p = ps[g.R.Intn(len(ps))]
			}
			g.Op("login %s %d", HexOrDash([]byte(p.user)), p.key)
			if len(stored[p]) > 0 {
				sessGrants = append(sessGrants, stored[p])
				delete(stored, p)
			}
		}
		ng := 1 + g.R.Intn(6)
		if g.R.Chance(1, 25) {
			ng = 0
		}
		left := ng
		for left > 0 && g.R.Chance(5, 6) {
			newGrant()
			left--
		}
		nreq := 1 + g.R.Intn(10)
		for r := 0; r < nreq; r++ {
			switch x := g.R.Intn(14); {
			case x == 0 && (len(stored) > 0 || g.R.Chance(1, 4)), len(sessGrants) == 0 && (len(stored) > 0 || x < 3):
				login()
			case x == 1 && left > 0:
				newGrant()
				left--
			case x == 2:
				g.Op("dump")
			case x == 3 && g.R.Chance(1, 2):
				g.Op("loginkey %s %d", HexOrDash([]byte(users[g.R.Intn(nu)])), 1+g.R.Intn(nk))
				sessGrants = append(sessGrants, nil)
			case x == 5 && g.R.Chance(1, 2):
				// a session issues a grant (for itself or for someone else)
				gt := Pick(g.R, []int{1, 2, 2, 5, 0})
				cmd := ""
				if gt == 2 {
					cmd = cmds[g.R.Intn(3)]
				}
				g.Op("issue %d %d %d %d %s %d %s %d", g.R.Intn(len(sessGrants)+1), gt, base, Pick(g.R, []uint64{1000, 1500000000, 3000000000, 1 << 39}),
					HexOrDash([]byte(users[g.R.Intn(nu+1)%len(users)])), 1+g.R.Intn(nk), HexOrDash([]byte(cmd)), Pick(g.R, []int{1, 1, 1, 0}))
			case x == 4 && g.R.Chance(1, 2):
				ex := Pick(g.R, []uint64{0, 1000, 1499999999, 1500000000, 3000000000, 3000000001, 1 << 39})
				g.Op("intent %d %d %d %s %d", g.R.Intn(len(sessGrants)+1), Pick(g.R, []int{0, 1, 2, 3, 4, 5, 6}), ex,
					HexOrDash([]byte(users[g.R.Intn(nu+1)%len(users)])), Pick(g.R, []int{1, 1, 1, 0}))
			default:
				// a request aimed at one of the session's grants: its own command or a near miss, at a
				// clock on one of the boundaries start-1, start, start+1, exp-1, exp, exp+1 (and sub-second)
				if len(sessGrants) == 0 && g.R.Chance(4, 5) {
					login()
					continue
				}
				si := g.R.Intn(len(sessGrants) + 1)
				if len(sessGrants) > 0 && g.R.Chance(9, 10) {
					si = g.R.Intn(len(sessGrants))
				}
				var sec, nsec uint64
				cmd, shell := cmds[g.R.Intn(len(cmds))], 0
				var pool []genGrant
				if si < len(sessGrants) {
					pool = sessGrants[si]
				}
				if len(pool) > 0 {
					gg := pool[g.R.Intn(len(pool))]
					edge := gg.start
					if g.R.Chance(1, 2) {
						edge = gg.exp
					}
					sec = edge + uint64(g.R.Intn(3)) - 1
					if g.R.Chance(1, 3) {
						sec = (gg.start + gg.exp) / 2
					}
					if g.R.Chance(1, 8) {
						// a clock that has nothing to do with the grant's window (long before, long after)
						sec = Pick(g.R, []uint64{0, 1500, 1 << 31, 1 << 33, 9223372036, 9223372037, 10413792000, 19880899200, 1<<39 + 5})
					}
					if g.R.Chance(1, 4) {
						nsec = Pick(g.R, []uint64{1, 500000000, 999999999})
					}
					if gg.frac != 0 && g.R.Chance(1, 2) {
						// around the sub-second start
						sec, nsec = gg.start, Pick(g.R, []uint64{0, gg.frac - 1, gg.frac, gg.frac / 2})
					}
					if g.R.Chance(3, 4) {
						cmd = gg.cmd
					}
					if gg.gtype == 1 && g.R.Chance(3, 4) {
						shell = 1
					}
				} else {
					sec = base + uint64(g.R.Intn(200))
				}
				if g.R.Chance(1, 10) {
					shell = 1 - shell
				}
				g.Op("exec %d %d %d %s %d", si, sec, nsec, HexOrDash([]byte(cmd)), shell)
			}
		}
		g.Op("dump")
	}

	// malformed stream
	g.Op("new")
	g.Op("grant 2 1000 2000 75 1 6c73")
	for _, b := range []string{"grant", "grant 2 1000 2000 75 1", "grant 256 1000 2000 75 1 6c73", "grant 2 1099511627776 2000 75 1 6c73",
		"grant 2 1000 2000 7 1 6c73", "grant 2 1000 2000 75 65536 6c73", "grant 2 -1 2000 75 1 6c73", "login 75", "login 75 x", "login zz 1",
		"exec 0 1500 0 6c73", "exec 0 1500 1000000000 6c73 0", "exec 0 1500 0 6c73 2", "exec x 1500 0 6c73 0", "dump 1", "new 1", "tube 0 5 1",
		"intent 0 2 2000000000 75 1", "intent 0 2 4000000000 75", "frob",
		"issue 0 3 1000 4000000000 75 1 - 1", "issue 0 1 1000 4000000000 75 1 6c73 1", "issue 0 2 1000 2000000000 75 1 6c73 1", "issue 0 2 1000 4000000000 75 1 6c73"} {
		g.Op("%s", b)
	}
	g.Op("login 75 1")
	g.Op("exec 0 1500 0 6c73 0")
	g.Op("exec 5 1500 0 6c73 0")
	g.Op("dump")
}
