#!/usr/bin/env python3
"""resolve git conflict markers by taking both sides (ours first), dropping exact duplicate lines"""
import sys
for path in sys.argv[1:]:
    out, mode, ours, theirs = [], None, [], []
    for line in open(path):
        if line.startswith("<<<<<<< "):
            mode, ours, theirs = "ours", [], []
        elif line.startswith("=======") and mode == "ours":
            mode = "theirs"
        elif line.startswith(">>>>>>> ") and mode == "theirs":
            seen = set()
            for l in ours + theirs:
                if l not in seen:
                    out.append(l)
                    seen.add(l)
            mode = None
        elif mode == "ours":
            ours.append(line)
        elif mode == "theirs":
            theirs.append(line)
        else:
            out.append(line)
    open(path, "w").write("".join(out))
    print("resolved", path)
