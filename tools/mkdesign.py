#!/usr/bin/env python3
"""Regenerates the generated parts of DESIGN.md (between the markers):
  <!-- BEGIN GENERATED: theorems --> … <!-- END GENERATED: theorems -->   per property: theorems, suites
  <!-- BEGIN GENERATED: seeded -->   … <!-- END GENERATED: seeded -->     seeded changes and which check caught them
"""
import glob
import json
import os
import re
import sys

ROOT = os.path.dirname(os.path.dirname(os.path.abspath(__file__)))
sys.path.insert(0, ROOT)
from lib import props, core  # noqa: E402


def theorems_section():
    out = []
    for pid in sorted(props.PROPS):
        cfg = props.PROPS[pid]
        names, examples = core.theorems_of(cfg.module, pid + "_")
        suites = ", ".join("`%s`%s" % (s.name, " (monitor)" if s.kind == "monitor" else "") for s in cfg.suites)
        out.append("* **%s** — `%s`: %d theorems, %d `example` obligations; suites %s.  " % (
            pid, cfg.module.replace("HopModel.", ""), len(names), examples, suites))
        out.append("  " + ", ".join("`%s`" % n.split(".")[-1] for n in names))
    return "\n".join(out)


def seeded_section():
    rows = []
    for m in sorted(glob.glob(os.path.join(ROOT, "seeded", "*", "meta.json"))):
        d = json.load(open(m))
        name = os.path.basename(os.path.dirname(m))
        c = d.get("confirmed", {})
        ok = all(c.get(k) for k in ("applies", "builds", "suite_passes_with_change", "demo_fails_with_change",
                                    "demo_passes_without_change"))
        caught = ", ".join(d.get("caught_by", [])) or "**not caught**"
        ran = ", ".join(sorted(d.get("checks", {})))
        summ = re.sub(r"\s+", " ", (d.get("summary") or ""))[:230]
        rows.append("| `%s` | %s | %s | %s | %s | %s |" % (name, d.get("property"), summ, "yes" if ok else "no: " + ", ".join(
            k for k in ("applies", "builds", "suite_passes_with_change", "demo_fails_with_change", "demo_passes_without_change") if not c.get(k)),
            ran, caught))
    head = ("| seeded change | property | what it does | confirmed (applies, builds, suite green, demo fails with / passes without) | checks run | caught by |\n"
            "|---|---|---|---|---|---|\n")
    return head + "\n".join(rows)


def findings_section():
    rows = []
    seen = set()
    def key(e):
        m = re.match(r"F(\d+)(\w*)", e["id"])
        return (int(m.group(1)) if m else 999, e["id"])
    ents = [json.loads(l) for l in open(os.path.join(ROOT, "KNOWN_FINDINGS.jsonl")) if l.strip()]
    for e in sorted(ents, key=key):
        what = re.sub(r"\s+", " ", e.get("what") or "")[:300]
        tag = (e["id"], e["property"], e.get("status"), what)
        if tag in seen:
            continue
        seen.add(tag)
        rows.append("| %s | %s | %s | %s | %s |" % (e["id"], e["property"], e.get("status"), e.get("commit") or "—",
                                                  what.replace("|", "/")))
    head = "| id | property | status | repair commit in /repo | what |\n|---|---|---|---|---|\n"
    return head + "\n".join(rows)


def splice(text, key, body):
    a, b = "<!-- BEGIN GENERATED: %s -->" % key, "<!-- END GENERATED: %s -->" % key
    if a not in text:
        return text
    i, j = text.index(a) + len(a), text.index(b)
    return text[:i] + "\n" + body + "\n" + text[j:]


p = os.path.join(ROOT, "DESIGN.md")
t = open(p).read()
t = splice(t, "theorems", theorems_section())
t = splice(t, "seeded", seeded_section())
t = splice(t, "findings", findings_section())
open(p, "w").write(t)
print("DESIGN.md regenerated parts updated")
