#!/usr/bin/env python3
"""Regenerates /verif/MANIFEST.json from lib/props.py and the table below, and validates it."""
import json
import os
import sys

ROOT = os.path.dirname(os.path.dirname(os.path.abspath(__file__)))


def _hook_commits():
    """the commits in /repo whose subject starts with `verif:` (hooks behind the build tag)"""
    import subprocess
    try:
        out = subprocess.run(["git", "-C", os.environ.get("HOP_REPO", "/repo"), "log", "--format=%h %s"],
                             stdout=subprocess.PIPE, text=True, timeout=60).stdout
    except Exception:
        return []
    return [l.split(" ", 1)[0] for l in out.split("\n") if " verif:" in l[:16]][::-1]


HOOK_COMMITS = _hook_commits()
sys.path.insert(0, ROOT)
from lib import props  # noqa: E402
TEXT = props.TEXT
NOT_BUILT = {}

ids = [json.loads(l)["id"] for l in open(os.path.join(ROOT, "properties.jsonl"))]
checks, na = [], []
for pid in ids:
    if pid in props.PROPS and pid in TEXT:
        t = TEXT[pid]
        checks.append({
            "property_id": pid,
            "quick_cmd": "./check %s --tier quick" % pid,
            "thorough_cmd": "./check %s --tier thorough" % pid,
            "evidence_file": "/verif/evidence/%s.json" % pid,
            "replay_cmd_template": "./check %s --replay {path}" % pid,
            "engine": "lean4-model+correspondence",
            "level_claimed": {"category": "proof", "text": t["text"], "design_ref": t["design_ref"]},
            "level_note": t["note"],
            "technique": t["technique"],
        })
    else:
        na.append({"property_id": pid, "reason": NOT_BUILT.get(pid, "check not built yet; design in DESIGN.md §5")})

m = {
    "version": 1,
    "setup_cmd": "./setup.sh",
    "hooks": {
        "guard": "verif",
        "enable": "go build -tags verif (the harness binaries under /verif/harness/cmd/* are built with it; files named verif_hooks.go carry //go:build verif)",
        "baseline_off_cmd": "cd /repo && GOFLAGS=-mod=mod GOPROXY=off go test -vet=off -count=1 -timeout 25m ./...",
        "source_commits": HOOK_COMMITS,
        "add_only": True,
    },
    "engines": [{
        "name": "lean4-model+correspondence",
        "path": "/verif/lean/HopModel (models, proofs, driver), /verif/harness (Go translator + harness), /verif/check, /verif/lib",
        "serves_properties": [c["property_id"] for c in checks],
        "kind_free_text": "machine-checked Lean 4 theorems about hand-written executable models; models tied to /repo on every run by "
                          "(G) a go/ast+go/types translator regenerating constants/facts the theorems mention and (D) a differential "
                          "correspondence run of the real Go code against the compiled Lean model on generated operation sequences",
    }],
    "checks": checks,
    "not_applicable": na,
    "notes": "See DESIGN.md. Known findings: KNOWN_FINDINGS.jsonl. Seeded changes used to test the checks: seeded/.",
}
json.dump(m, open(os.path.join(ROOT, "MANIFEST.json"), "w"), indent=1)
print("MANIFEST.json: %d checks, %d not claimed" % (len(checks), len(na)))
try:
    import jsonschema
    jsonschema.validate(m, json.load(open("/root/.vp/MANIFEST.schema.json")))
    print("schema: ok")
except ImportError:
    print("schema: jsonschema not available in this python, not validated")
