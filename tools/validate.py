#!/usr/bin/env python3
"""validates MANIFEST.json and evidence/*.json against the schemas in /root/.vp (run with python3-vt)"""
import glob, json, sys, jsonschema
ok = True
def v(path, schema):
    global ok
    try:
        jsonschema.validate(json.load(open(path)), json.load(open(schema)))
        print("ok   ", path)
    except Exception as e:
        ok = False
        print("FAIL ", path, str(e)[:300])
v("/verif/MANIFEST.json", "/root/.vp/MANIFEST.schema.json")
for f in sorted(glob.glob("/verif/evidence/C*.json")):
    v(f, "/root/.vp/EVIDENCE.schema.json")
sys.exit(0 if ok else 1)
