#!/usr/bin/env python3
"""Confirm a seeded change and run the checks against it.

usage: tools/seedtest.py <property> <change.diff> <demo_test.go> <meta.json> <name> [extra property ids to run …]

1. in a scratch worktree of /repo: apply the change, build, run the whole test suite (must pass),
   run the demonstration (must FAIL); undo the change, run the demonstration (must PASS);
2. apply the change to /repo itself, run ./check for the property (and the extra ones), undo it;
3. keep everything under /verif/seeded/<name>/ with what was run and what the checks said.
"""
import json
import os
import re
import shutil
import subprocess
import sys

VERIF = os.path.dirname(os.path.dirname(os.path.abspath(__file__)))
ENV = dict(os.environ, GOFLAGS="-mod=mod", GOPROXY="off")
ENV.pop("GOTOOLCHAIN", None)
ENV.pop("GOSUMDB", None)


# the repository's tests bind fixed ports (7777, 26735): run them in a private network namespace so
# that concurrent runs on this machine cannot collide
NETNS = "unshare -rn sh -c 'ip link set lo up && %s'"


def sh(cmd, cwd=None, timeout=1800):
    p = subprocess.run(cmd, cwd=cwd, env=ENV, shell=isinstance(cmd, str), stdout=subprocess.PIPE,
                       stderr=subprocess.STDOUT, text=True, timeout=timeout)
    return p.returncode, p.stdout


def main():
    pid, diff, demo, meta, name = sys.argv[1:6]
    extra = sys.argv[6:]
    out = os.path.join(VERIF, "seeded", name)
    os.makedirs(out, exist_ok=True)
    m = json.load(open(meta))
    first = open(demo).readline()
    mdir = re.search(r"dir:\s*(\S+)", first)
    demo_dir = (mdir.group(1) if mdir else m.get("demo_dir", "")).strip("./")
    rec = {"property": pid, "summary": m.get("summary"), "needs": m.get("needs"), "files": m.get("files"),
           "demo_dir": demo_dir, "author_ran": m.get("ran"), "confirmed": {}}

    wt = "/tmp/seedcheck-%d" % os.getpid()
    sh(["git", "-C", "/repo", "worktree", "add", "--detach", wt, "HEAD"])
    try:
        rc, o = sh(["git", "apply", os.path.abspath(diff)], cwd=wt)
        rec["confirmed"]["applies"] = rc == 0
        if rc != 0:
            rec["confirmed"]["apply_output"] = o[-2000:]
        rc, o = sh("go build ./...", cwd=wt)
        rec["confirmed"]["builds"] = rc == 0
        rc, o = sh(NETNS % "go test -vet=off -count=1 ./... 2>&1 | tail -60", cwd=wt)
        fails = [l for l in o.split("\n") if l.startswith("FAIL") or l.startswith("--- FAIL")]
        if fails:   # timing-dependent tests: one retry
            rc2, o2 = sh(NETNS % "go test -vet=off -count=1 ./... 2>&1 | tail -60", cwd=wt)
            fails2 = [l for l in o2.split("\n") if l.startswith("FAIL") or l.startswith("--- FAIL")]
            rec["confirmed"]["suite_first_run_failures"] = fails
            fails = fails2
        rec["confirmed"]["suite_passes_with_change"] = not fails
        rec["confirmed"]["suite_failures"] = fails
        dst = os.path.join(wt, demo_dir, "zz_seed_demo_test.go")
        shutil.copyfile(demo, dst)
        rc, o = sh(NETNS % ("go test -vet=off -count=1 -run . ./%s/ 2>&1 | tail -30" % demo_dir), cwd=wt, timeout=900)
        demo_fails_with = ("FAIL" in o)
        rec["confirmed"]["demo_fails_with_change"] = demo_fails_with
        rec["confirmed"]["demo_with_change_tail"] = o[-1500:]
        sh(["git", "apply", "-R", os.path.abspath(diff)], cwd=wt)
        rc, o = sh(NETNS % ("go test -vet=off -count=1 -run . ./%s/ 2>&1 | tail -30" % demo_dir), cwd=wt, timeout=900)
        rec["confirmed"]["demo_passes_without_change"] = ("FAIL" not in o) and ("ok" in o)
        rec["confirmed"]["demo_without_change_tail"] = o[-800:]
    finally:
        sh(["git", "-C", "/repo", "worktree", "remove", "--force", wt])
        shutil.rmtree(wt, ignore_errors=True)

    # the checks
    rec["checks"] = {}
    rc, o = sh(["git", "-C", "/repo", "apply", os.path.abspath(diff)])
    try:
        if rc == 0:
            for p in [pid] + extra:
                rc, o = sh(["./check", p, "--tier", "quick"], cwd=VERIF, timeout=3600)
                lines = [l for l in o.split("\n") if l.startswith(("VIOLATION", "KNOWN-FINDING", "OK "))]
                entry = {"exit": rc, "lines": lines[:6]}
                # keep the first replay file next to the record
                mm = re.search(r"replay=(\S+)", "\n".join(lines))
                if mm and os.path.exists(os.path.join(VERIF, mm.group(1))):
                    rp = json.load(open(os.path.join(VERIF, mm.group(1))))
                    for k in ("ops", "impl", "model"):
                        if isinstance(rp.get(k), list):
                            rp[k] = rp[k][:40]
                    entry["first_replay"] = rp
                rec["checks"][p] = entry
    finally:
        sh(["git", "-C", "/repo", "checkout", "--", "."])
        sh(["git", "-C", "/repo", "clean", "-fdq"])
    rec["caught_by"] = [p for p, e in rec["checks"].items() if e["exit"] == 1]
    shutil.copyfile(diff, os.path.join(out, "patch.diff"))
    shutil.copyfile(demo, os.path.join(out, "demo_test.go"))
    json.dump(rec, open(os.path.join(out, "meta.json"), "w"), indent=1)
    c = rec["confirmed"]
    print("%s: applies=%s builds=%s suite=%s demo_fails_with=%s demo_passes_without=%s caught_by=%s" % (
        name, c.get("applies"), c.get("builds"), c.get("suite_passes_with_change"), c.get("demo_fails_with_change"),
        c.get("demo_passes_without_change"), rec["caught_by"]))
    for p, e in rec["checks"].items():
        print("   ", p, e["exit"], e["lines"][:2])


if __name__ == "__main__":
    main()
